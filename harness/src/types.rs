//! C20 (and the type side of C08): dump the real promotion / castability functions as a complete
//! table over the finite abstraction of types; TLC checks the lattice laws (TypeLattice, R) on it and
//! compares it with the transcription of the code (Promote, M).
use crate::util::*;
use oq3_semantics::asg::{implicit_cast_type, ArithOp};
use oq3_semantics::types::*;
use serde_json::{json, Value};

const WIDTHS: [Option<u32>; 7] = [Some(1), Some(8), Some(32), Some(64), Some(128), Some(u32::MAX), None];

fn wrank(w: &Option<u32>) -> i64 {
    match w {
        Some(1) => 1,
        Some(8) => 2,
        Some(32) => 3,
        Some(64) => 4,
        Some(128) => 5,
        Some(u32::MAX) => 6,
        None => 7,
        Some(_) => 0, // outside the abstraction
    }
}

fn dims_list() -> Vec<(ArrayDims, i64, i64)> {
    // (dims, number of dims, key distinguishing different extents)
    vec![
        (ArrayDims::D1(4), 1, 1),
        (ArrayDims::D1(5), 1, 2),
        (ArrayDims::D2(4, 5), 2, 3),
        (ArrayDims::D3(4, 5, 6), 3, 4),
    ]
}

pub fn all_types() -> Vec<Type> {
    let mut v = vec![];
    let cs = [IsConst::True, IsConst::False];
    for c in &cs {
        v.push(Type::Bit(c.clone()));
    }
    v.push(Type::Qubit);
    v.push(Type::HardwareQubit);
    for w in WIDTHS {
        for c in &cs {
            v.push(Type::Int(w, c.clone()));
            v.push(Type::UInt(w, c.clone()));
            v.push(Type::Float(w, c.clone()));
            v.push(Type::Angle(w, c.clone()));
            v.push(Type::Complex(w, c.clone()));
        }
    }
    for c in &cs {
        v.push(Type::Bool(c.clone()));
        v.push(Type::Duration(c.clone()));
        v.push(Type::Stretch(c.clone()));
    }
    for (d, _, _) in dims_list() {
        for c in &cs {
            v.push(Type::BitArray(d.clone(), c.clone()));
        }
        v.push(Type::QubitArray(d.clone()));
        v.push(Type::IntArray(d.clone()));
        v.push(Type::UIntArray(d.clone()));
        v.push(Type::FloatArray(d.clone()));
        v.push(Type::AngleArray(d.clone()));
        v.push(Type::ComplexArray(d.clone()));
        v.push(Type::BoolArray(d.clone()));
        v.push(Type::DurationArray(d.clone()));
    }
    v.push(Type::Gate(0, 1));
    v.push(Type::Gate(3, 1));
    v.push(Type::SubroutineDef(SubroutineDef { num_params: 1, return_type: Box::new(Type::Int(None, IsConst::False)) }));
    v.push(Type::Range);
    v.push(Type::Set);
    v.push(Type::Void);
    v.push(Type::ToDo);
    v.push(Type::Undefined);
    v
}

fn cstr(c: &IsConst) -> &'static str {
    match c {
        IsConst::True => "T",
        IsConst::False => "F",
    }
}

fn dims_key(d: &ArrayDims) -> (i64, i64) {
    for (dd, n, k) in dims_list() {
        if &dd == d {
            return (n, k);
        }
    }
    (d.num_dims() as i64, 0)
}

/// The abstract record the TLA+ modules use for a type.
pub fn describe(t: &Type) -> Value {
    use Type::*;
    let (base, w, c, nd, dk): (&str, i64, &str, i64, i64) = match t {
        Bit(c) => ("Bit", -1, cstr(c), 0, 0),
        Qubit => ("Qubit", -1, "-", 0, 0),
        HardwareQubit => ("HardwareQubit", -1, "-", 0, 0),
        Int(w, c) => ("Int", wrank(w), cstr(c), 0, 0),
        UInt(w, c) => ("UInt", wrank(w), cstr(c), 0, 0),
        Float(w, c) => ("Float", wrank(w), cstr(c), 0, 0),
        Angle(w, c) => ("Angle", wrank(w), cstr(c), 0, 0),
        Complex(w, c) => ("Complex", wrank(w), cstr(c), 0, 0),
        Bool(c) => ("Bool", -1, cstr(c), 0, 0),
        Duration(c) => ("Duration", -1, cstr(c), 0, 0),
        Stretch(c) => ("Stretch", -1, cstr(c), 0, 0),
        BitArray(d, c) => {
            let (n, k) = dims_key(d);
            ("BitArray", -1, cstr(c), n, k)
        }
        QubitArray(d) => { let (n, k) = dims_key(d); ("QubitArray", -1, "-", n, k) }
        IntArray(d) => { let (n, k) = dims_key(d); ("IntArray", -1, "-", n, k) }
        UIntArray(d) => { let (n, k) = dims_key(d); ("UIntArray", -1, "-", n, k) }
        FloatArray(d) => { let (n, k) = dims_key(d); ("FloatArray", -1, "-", n, k) }
        AngleArray(d) => { let (n, k) = dims_key(d); ("AngleArray", -1, "-", n, k) }
        ComplexArray(d) => { let (n, k) = dims_key(d); ("ComplexArray", -1, "-", n, k) }
        BoolArray(d) => { let (n, k) = dims_key(d); ("BoolArray", -1, "-", n, k) }
        DurationArray(d) => { let (n, k) = dims_key(d); ("DurationArray", -1, "-", n, k) }
        Gate(a, b) => ("Gate", -1, "-", *a as i64, *b as i64),
        SubroutineDef(_) => ("SubroutineDef", -1, "-", 0, 0),
        Range => ("Range", -1, "-", 0, 0),
        Set => ("Set", -1, "-", 0, 0),
        Void => ("Void", -1, "-", 0, 0),
        ToDo => ("ToDo", -1, "-", 0, 0),
        Undefined => ("Undefined", -1, "-", 0, 0),
    };
    json!({"base": base, "w": w, "c": c, "nd": nd, "dk": dk})
}

fn index_of(ts: &[Type], t: &Type) -> i64 {
    ts.iter().position(|x| x == t).map(|i| i as i64 + 1).unwrap_or(0)
}

/// types-table <types.ndjson> <table.ndjson>
pub fn table(args: &[String]) {
    let ts = all_types();
    let mut o = NdjsonOut::create(&args[0]);
    for (i, t) in ts.iter().enumerate() {
        let mut d = describe(t);
        d["i"] = json!(i + 1);
        d["dbg"] = json!(format!("{:?}", t));
        d["is_const"] = json!(t.is_const());
        d["is_scalar"] = json!(t.is_scalar());
        d["is_quantum"] = json!(t.is_quantum());
        o.put(&d);
    }
    drop(o);
    let mut o = NdjsonOut::create(&args[1]);
    for (ia, a) in ts.iter().enumerate() {
        for (ib, b) in ts.iter().enumerate() {
            let r = guarded(|| {
                let p = promote_types(a, b);
                let pne = promote_types_not_equal(a, b);
                let lit = can_cast_literal(a, b);
                let eqb = equal_base_type(a, b);
                let add = implicit_cast_type(&ArithOp::Add, a, b);
                let div = implicit_cast_type(&ArithOp::Div, a, b);
                let band = implicit_cast_type(&ArithOp::BitAnd, a, b);
                (p, pne, lit, eqb, add, div, band)
            });
            match r {
                Ok((p, pne, lit, eqb, add, div, band)) => o.put(&json!({
                    "a": ia + 1, "b": ib + 1,
                    "p": index_of(&ts, &p), "pne": index_of(&ts, &pne),
                    "lit": lit, "eqb": eqb,
                    "add": index_of(&ts, &add), "div": index_of(&ts, &div), "band": index_of(&ts, &band),
                    "pdbg": format!("{:?}", p),
                })),
                Err(pn) => o.put(&json!({"a": ia + 1, "b": ib + 1, "panic": pn,
                    "p": -1, "pne": -1, "lit": false, "eqb": false, "add": -1, "div": -1, "band": -1, "pdbg": "panic"})),
            }
        }
    }
}
