//! Full-pipeline observation: text (+ include search list) -> everything a user can see
//! (stage outcomes, diagnostics with ranges, tree facts, ASG statements, symbols, scope depth).
use crate::dbg::debug_to_json;
use crate::util::*;
use oq3_semantics::semantic_error::SemanticErrorList;
use oq3_semantics::symbols::{SymbolId, SymbolType};
use oq3_semantics::syntax_to_semantics::{parse_source_file_with_search, parse_source_string_with_path_search, ParseResult};
use oq3_source_file::{SourceFile, SourceTrait};
use oq3_syntax::{SyntaxKind, SyntaxNode};
use serde_json::{json, Value};
use std::path::PathBuf;

fn syntax_errors_json(errs: &[oq3_syntax::SyntaxError]) -> Vec<Value> {
    errs.iter()
        .map(|e| {
            let r = e.range();
            json!({"msg": e.to_string(), "start": u32::from(r.start()), "end": u32::from(r.end())})
        })
        .collect()
}

fn file_obs<T: SourceTrait>(f: &T) -> Value {
    let (have_parse, errs, has_error_node) = match f.syntax_ast() {
        Some(ast) => {
            let hp = ast.have_parse();
            let en = if hp { tree_has_error(&ast.syntax_node()) } else { false };
            (hp, syntax_errors_json(ast.errors()), en)
        }
        None => (false, vec![], false),
    };
    json!({
        "path": f.file_path().to_string_lossy(),
        "read": f.syntax_ast().is_some(),
        "have_parse": have_parse,
        "errors": errs,
        "error_nodes": has_error_node,
        "included": f.included().iter().map(included_obs).collect::<Vec<_>>(),
    })
}

fn included_obs(f: &SourceFile) -> Value {
    let mut v = file_obs(f);
    v["include_error"] = match f.include_error() {
        Some(e) => json!(format!("{:?}", e.error)),
        None => Value::Null,
    };
    v
}

pub fn tree_has_error(root: &SyntaxNode) -> bool {
    root.descendants_with_tokens().any(|e| e.kind() == SyntaxKind::ERROR)
}

fn sem_errors_json(l: &SemanticErrorList) -> Value {
    json!({
        "path": l.source_file_path().to_string_lossy(),
        "list": l.iter().map(|e| {
            let r = e.range();
            let kind = format!("{:?}", e.kind());
            let k0 = kind.split('(').next().unwrap_or("").to_string();
            json!({"kind": k0, "full": kind, "start": u32::from(r.start()), "end": u32::from(r.end())})
        }).collect::<Vec<_>>(),
        "included": l.include_errors().iter().map(sem_errors_json).collect::<Vec<_>>(),
    })
}

fn result_obs<T: SourceTrait>(r: &ParseResult<T>, want_asg: bool) -> Value {
    let st = r.symbol_table();
    let nsyms = st.verif_num_symbols();
    let symbols: Vec<Value> = (0..nsyms)
        .map(|i| {
            let s = &st[&SymbolId::verif_from_index(i)];
            json!({"name": s.name(), "type": format!("{:?}", s.symbol_type())})
        })
        .collect();
    let stmts: Vec<Value> = if want_asg {
        r.program().stmts().iter().map(|s| debug_to_json(&format!("{:?}", s))).collect()
    } else {
        vec![]
    };
    let gates: Vec<Value> = st.gates().map(|(n, id, a, b)| json!([n, id.verif_index(), a, b])).collect();
    json!({
        "any_syntax_errors": r.any_syntax_errors(),
        "num_syntax_errors": r.num_syntax_errors(),
        "any_semantic_errors": r.any_semantic_errors(),
        "files": file_obs(r.syntax_result()),
        "n_stmts": r.program().stmts().len(),
        "stmts": stmts,
        "sem_errors": sem_errors_json(r.semantic_errors()),
        "symbols": symbols,
        "gates": gates,
        "scope_depth": st.verif_scope_depth(),
    })
}

/// Analyse a source string. Panics are data.
pub fn analyze_string(text: &str, search: Option<&[PathBuf]>, want_asg: bool) -> Value {
    note_input(text);
    let r = guarded(|| {
        let res = parse_source_string_with_path_search(text, Some("main.qasm"), search);
        result_obs(&res, want_asg)
    });
    match r {
        Ok(v) => v,
        Err(p) => json!({"panic": p}),
    }
}

pub fn analyze_file(path: &str, search: Option<&[PathBuf]>, want_asg: bool) -> Value {
    note_input(&format!("file {path}: {}", std::fs::read_to_string(path).unwrap_or_default()));
    let r = guarded(|| {
        let res = parse_source_file_with_search(path, search);
        result_obs(&res, want_asg)
    });
    match r {
        Ok(v) => v,
        Err(p) => json!({"panic": p}),
    }
}

/// probe <file.qasm | -e text>: dump the full observation (for exploration and replay).
pub fn probe(args: &[String]) {
    let text = if args[0] == "-e" { crate::lex::expand(&args[1]) } else { std::fs::read_to_string(&args[0]).unwrap() };
    let lexed = oq3_parser::LexedStr::new(&text);
    let toks: Vec<String> = (0..lexed.len()).map(|i| format!("{:?}:{:?}", lexed.kind(i), lexed.text(i))).collect();
    println!("TOKENS {}", toks.join(" "));
    let lexerrs: Vec<String> = lexed.errors().map(|(i, m)| format!("{i}:{m}")).collect();
    println!("LEXERRS {:?}", lexerrs);
    let pr = guarded(|| {
        let p = oq3_syntax::SourceFile::parse(&text);
        (format!("{:#?}", p.syntax_node()), syntax_errors_json(p.errors()))
    });
    match pr {
        Ok((tree, errs)) => {
            println!("TREE\n{tree}");
            println!("SYNERRS {}", serde_json::to_string(&errs).unwrap());
        }
        Err(p) => println!("PARSE PANIC {}", p),
    }
    let v = analyze_string(&text, None, true);
    println!("ANALYSIS {}", serde_json::to_string_pretty(&v).unwrap());
}
