//! C19: the real `SymbolTable` driven (a) in lock-step with the state graph exported by TLC from
//! spec/symtab/SymTab.tla over ALL histories up to a length (B2), (b) by random histories whose
//! recorded answers are validated by TLC against SymTabTrace.tla (B3).
use crate::util::*;
use oq3_semantics::symbols::{ScopeType, SymbolId, SymbolTable, SymbolType};
use oq3_semantics::types::{IsConst, Type};
use rand::Rng;
use rayon::prelude::*;
use serde_json::{json, Value};
use std::sync::atomic::{AtomicU64, Ordering};
use std::sync::Mutex;

fn real_name(n: &str) -> &str {
    match n {
        "pi_u" => "π",
        "euler_u" => "ℇ",
        "tau_u" => "τ",
        x => x,
    }
}
fn model_name(n: &str) -> &str {
    match n {
        "π" => "pi_u",
        "ℇ" => "euler_u",
        "τ" => "tau_u",
        x => x,
    }
}
fn real_type(t: &str) -> Type {
    match t {
        "int" => Type::Int(None, IsConst::False),
        "qubit" => Type::Qubit,
        "float" => Type::Float(Some(32), IsConst::False),
        "gate" => Type::Gate(1, 2),
        _ => panic!("unknown model type {t}"),
    }
}
fn model_type(t: &Type) -> String {
    match t {
        Type::Int(None, IsConst::False) => "int".into(),
        Type::Qubit => "qubit".into(),
        Type::Float(Some(32), IsConst::False) => "float".into(),
        Type::Gate(1, 2) => "gate".into(),
        other => format!("{:?}", other),
    }
}
fn scope_kind(k: &str) -> ScopeType {
    match k {
        "Local" => ScopeType::Local,
        "Subroutine" => ScopeType::Subroutine,
        "Calibration" => ScopeType::Calibration,
        "Global" => ScopeType::Global,
        _ => panic!("unknown scope kind {k}"),
    }
}

/// Apply one model operation to the real table; return the response in the model's vocabulary.
fn apply(t: &mut SymbolTable, op: &Value) -> Value {
    match op["op"].as_str().unwrap() {
        "enter" => {
            t.verif_enter_scope(scope_kind(op["kind"].as_str().unwrap()));
            json!({"op":"enter","depth": t.verif_scope_depth()})
        }
        "exit" => {
            t.exit_scope();
            json!({"op":"exit","depth": t.verif_scope_depth()})
        }
        "bind" => {
            let r = t.new_binding(
                real_name(op["name"].as_str().unwrap()),
                &real_type(op["type"].as_str().unwrap()),
            );
            match r {
                Ok(id) => json!({"op":"bind","ok":true,"id": id.verif_index()}),
                Err(_) => json!({"op":"bind","ok":false,"id": -1}),
            }
        }
        "lookup" => {
            let n = op["name"].as_str().unwrap();
            match t.lookup(real_name(n)) {
                Ok(rec) => {
                    let id = rec.symbol_id();
                    let ty = model_type(rec.symbol_type());
                    // the record's own view and the table's index must agree
                    let via_index = &t[&id];
                    let name = model_name(via_index.name()).to_string();
                    let ty2 = model_type(via_index.symbol_type());
                    if ty != ty2 {
                        return json!({"op":"lookup","found":true,"id":id.verif_index(),"name":name,
                                      "type": format!("record:{ty} index:{ty2}")});
                    }
                    json!({"op":"lookup","found":true,"id":id.verif_index(),"name":name,"type":ty})
                }
                Err(_) => json!({"op":"lookup","found":false,"id":-1,"name":n,"type":"none"}),
            }
        }
        "lob" => {
            let id = t.lookup_or_new_binding(
                real_name(op["name"].as_str().unwrap()),
                &real_type(op["type"].as_str().unwrap()),
            );
            json!({"op":"lob","id": id.verif_index()})
        }
        o => panic!("unknown op {o}"),
    }
}

/// Project the real table to the model's observation record `Obs`.
fn observe(t: &SymbolTable, names: &[String]) -> Value {
    let mut vis = serde_json::Map::new();
    for n in names {
        let id = match t.lookup(real_name(n)) {
            Ok(rec) => rec.symbol_id().verif_index() as i64,
            Err(_) => -1,
        };
        vis.insert(n.clone(), json!(id));
    }
    let gates: Vec<Value> = t
        .gates()
        .map(|(name, id, _, _)| json!({"name": model_name(name), "id": id.verif_index()}))
        .collect();
    json!({
        "depth": t.verif_scope_depth(),
        "curlen": t.len_current_scope(),
        "curkind": format!("{:?}", t.verif_current_scope_type()),
        "nsyms": t.verif_num_symbols(),
        "vis": Value::Object(vis),
        "gates": gates,
    })
}

fn all_symbols(t: &SymbolTable) -> Vec<Value> {
    (0..t.verif_num_symbols())
        .map(|i| {
            let s = &t[&SymbolId::verif_from_index(i)];
            json!({"name": model_name(s.name()), "type": model_type(s.symbol_type())})
        })
        .collect()
}

struct Edge {
    op: Value,
    r: Value,
    obs: Value,
    user_syms: Value,
    to: usize,
}

struct Graph {
    init: usize,
    out: Vec<Vec<Edge>>,
    names: Vec<String>,
    builtins: Vec<Value>,
}

fn load_graph(path: &str) -> Graph {
    let g = read_json_file(path);
    let n = g["nstates"].as_u64().unwrap() as usize;
    let mut out: Vec<Vec<Edge>> = (0..n).map(|_| Vec::new()).collect();
    for e in g["edges"].as_array().unwrap() {
        let f = e[0].as_u64().unwrap() as usize;
        out[f].push(Edge {
            op: e[1].clone(),
            r: e[2].clone(),
            obs: e[3].clone(),
            user_syms: e[4].clone(),
            to: e[5].as_u64().unwrap() as usize,
        });
    }
    Graph {
        init: g["init"].as_u64().unwrap() as usize,
        out,
        names: g["names"].as_array().unwrap().iter().map(|v| v.as_str().unwrap().to_string()).collect(),
        builtins: g["builtins"].as_array().unwrap().clone(),
    }
}

struct WalkStats {
    histories: AtomicU64,
    ops: AtomicU64,
    failures: Mutex<Vec<Value>>,
}

fn dfs(g: &Graph, state: usize, table: &SymbolTable, hist: &mut Vec<Value>, maxlen: usize, st: &WalkStats) {
    if hist.len() >= maxlen {
        return;
    }
    if st.failures.lock().unwrap().len() >= 20 {
        return;
    }
    for e in &g.out[state] {
        let mut t = table.clone();
        hist.push(e.op.clone());
        let res = guarded(|| {
            let r = apply(&mut t, &e.op);
            // observe on a copy: look-ups made for the observation must not touch the table under test
            // (a table with interior mutability - a look-up cache - would be refreshed by the observer)
            let o = observe(&t.clone(), &g.names);
            let syms = all_symbols(&t);
            (r, o, syms)
        });
        st.ops.fetch_add(1, Ordering::Relaxed);
        st.histories.fetch_add(1, Ordering::Relaxed);
        let mut bad: Option<Value> = None;
        match res {
            Err(p) => bad = Some(json!({"kind":"panic","what":"symbol table operation panicked","panic":p})),
            Ok((r, o, syms)) => {
                let mut exp_syms = g.builtins.clone();
                if let Some(u) = e.user_syms.as_array() {
                    exp_syms.extend(u.iter().cloned());
                }
                if !json_eq_loose(&r, &e.r) {
                    bad = Some(json!({"kind":"answer","what":"operation answered differently from the stack-of-maps model",
                        "expected": e.r, "observed": r}));
                } else if !json_eq_loose(&o, &e.obs) {
                    bad = Some(json!({"kind":"observation","what":"table state observable differs from model after the operation",
                        "expected": e.obs, "observed": o}));
                } else if !json_eq_loose(&Value::Array(syms.clone()), &Value::Array(exp_syms.clone())) {
                    bad = Some(json!({"kind":"symbols","what":"symbol ids do not keep denoting the same name and type",
                        "expected": exp_syms, "observed": syms}));
                }
            }
        }
        if let Some(mut b) = bad {
            b["history"] = Value::Array(hist.clone());
            st.failures.lock().unwrap().push(b);
        } else {
            dfs(g, e.to, &t, hist, maxlen, st);
        }
        hist.pop();
    }
}

/// symtab-walk <graph.json> <maxlen> <out.json>
pub fn walk(args: &[String]) {
    let g = load_graph(&args[0]);
    let maxlen: usize = args[1].parse().unwrap();
    let st = WalkStats { histories: AtomicU64::new(0), ops: AtomicU64::new(0), failures: Mutex::new(vec![]) };
    // check the initial state first
    let t0 = SymbolTable::new();
    let init_syms = all_symbols(&t0);
    if !json_eq_loose(&Value::Array(init_syms.clone()), &Value::Array(g.builtins.clone())) {
        st.failures.lock().unwrap().push(json!({"kind":"builtins","what":"built-in constants / gate not present from the start",
            "expected": g.builtins, "observed": init_syms, "history": []}));
    }
    // parallelise over the first two levels
    let mut seeds: Vec<(usize, SymbolTable, Vec<Value>)> = vec![];
    for e in &g.out[g.init] {
        let mut t = t0.clone();
        let mut h = vec![e.op.clone()];
        // level-1 edges are checked by a sequential dfs of depth 1 below
        let _ = guarded(|| apply(&mut t, &e.op));
        for e2 in &g.out[e.to] {
            let mut t2 = t.clone();
            let _ = guarded(|| apply(&mut t2, &e2.op));
            h.push(e2.op.clone());
            seeds.push((e2.to, t2, h.clone()));
            h.pop();
        }
    }
    // depth-2 prefix checked sequentially (cheap)
    dfs(&g, g.init, &t0, &mut vec![], maxlen.min(2), &st);
    if maxlen > 2 && st.failures.lock().unwrap().is_empty() {
        // by value: the table only has to be Send (a change that adds interior mutability must not stop the build)
        seeds.into_par_iter().for_each(|(s, t, h)| {
            let mut hh = h;
            dfs(&g, s, &t, &mut hh, maxlen, &st);
        });
    }
    let fails = st.failures.lock().unwrap().clone();
    let out = json!({
        "histories": st.histories.load(Ordering::Relaxed),
        "ops": st.ops.load(Ordering::Relaxed),
        "failures": fails,
    });
    std::fs::write(&args[2], serde_json::to_string(&out).unwrap()).unwrap();
}

/// symtab-record <seed> <runs> <len> <out.ndjson>: random histories over 4 names; every operation
/// is logged with its arguments and the real answer plus cheap scalar state (B3).
pub fn record(args: &[String]) {
    let seed: u64 = args[0].parse().unwrap();
    let runs: usize = args[1].parse().unwrap();
    let len: usize = args[2].parse().unwrap();
    let mut out = NdjsonOut::create(&args[3]);
    let mut rng = rng(seed);
    let names = ["a", "b", "c", "pi"];
    let types = ["int", "qubit", "float", "gate"];
    let kinds = ["Local", "Subroutine", "Calibration"];
    let all_names: Vec<String> = names.iter().map(|s| s.to_string()).collect();
    for _ in 0..runs {
        let mut t = SymbolTable::new();
        out.put(&json!({"ev":"reset"}));
        for _ in 0..len {
            let depth = t.verif_scope_depth();
            let c = rng.gen_range(0..100);
            let op = if c < 14 {
                json!({"op":"enter","kind":kinds[rng.gen_range(0..kinds.len())]})
            } else if c < 28 && depth > 1 {
                json!({"op":"exit"})
            } else if c < 55 {
                json!({"op":"bind","name":names[rng.gen_range(0..4)],"type":types[rng.gen_range(0..4)]})
            } else if c < 65 {
                json!({"op":"lob","name":names[rng.gen_range(0..4)],"type":types[rng.gen_range(0..4)]})
            } else {
                json!({"op":"lookup","name":names[rng.gen_range(0..4)]})
            };
            let r = guarded(|| apply(&mut t, &op));
            match r {
                Ok(r) => {
                    let o = observe(&t.clone(), &all_names);
                    out.put(&json!({"ev":"op","op":op,"r":r,"obs":o}));
                }
                Err(p) => {
                    out.put(&json!({"ev":"panic","op":op,"panic":p}));
                    break;
                }
            }
        }
    }
}

const PRELUDE: &str = "include \"stdgates.inc\";\nint a; int b; int c; int d; bit[8] v; bit m; duration t = 10ns; qubit[4] q; qubit[2] r;\ndef f(int p) -> int { return p; }\ngate g a0, a1 { }\n";

/// anz-symtrace <seed> <corpus.json> <n_mut> <n_rand> <out.ndjson> <summary.json> [gram-cases.ndjson]
/// Run the REAL semantic analysis on every corpus / mutated / random text that parses without any
/// diagnostic and record the symbol-table operations it performs (hook oq3_semantics::verif), one
/// "reset" ... "done" block per program, for validation against AnalyzerSymTrace.tla (B3; C03, C07, C19).
pub fn record_analysis(args: &[String]) {
    use oq3_semantics::syntax_to_semantics::parse_source_string_with_path_search;
    let seed: u64 = args[0].parse().unwrap();
    let corpus: Vec<String> = serde_json::from_str(&std::fs::read_to_string(&args[1]).unwrap()).unwrap();
    let n_mut: usize = args[2].parse().unwrap();
    let n_rand: usize = args[3].parse().unwrap();
    let mut inputs = crate::gen::robustness_inputs(seed, &corpus, n_mut, n_rand);
    // optional: programs of the wider grammar generated by TLC from RefGrammar/GrammarCases (they parse cleanly by construction)
    if args.len() > 6 {
        for c in read_ndjson(&args[6]) {
            let toks: Vec<String> = c["toks"].as_array().unwrap().iter().map(|t| crate::lex::expand(t.as_str().unwrap())).collect();
            let text = crate::gram::render(&toks, 0);
            // the same program after declarations of the free names the reference grammar uses, so that the analysis goes past
            // "undeclared" into the typed paths (operands of a declared register, calls of a declared subroutine, ...)
            inputs.push(format!("{PRELUDE}{text}"));
            inputs.push(text);
        }
    }
    let mut out = NdjsonOut::create(&args[4]);
    let (mut analysed, mut records, mut skipped_syntax) = (0usize, 0usize, 0usize);
    let mut panics: Vec<Value> = vec![];
    let mut bad_init: Vec<Value> = vec![];
    let mut seen = std::collections::HashSet::new();
    let max_ops: usize = std::env::var("SYMTRACE_MAX_OPS").ok().and_then(|s| s.parse().ok()).unwrap_or(400);
    for t in &inputs {
        if t.len() > 6000 || !seen.insert(t.clone()) { continue; }
        // only programs that parse without any diagnostic (lexical or syntactic)
        let clean = guarded(|| {
            let p = oq3_syntax::SourceFile::parse(t);
            p.errors().is_empty() && !crate::pipe::tree_has_error(&p.syntax_node())
        }).unwrap_or(false);
        if !clean { skipped_syntax += 1; continue; }
        // `include` needs the file system: texts with includes other than stdgates.inc are left to C18
        if t.contains("include") && !t.contains("stdgates.inc") { continue; }
        note_input(t);
        oq3_semantics::verif::start_recording();
        let r = guarded(|| {
            let res = parse_source_string_with_path_search(t.as_str(), Some("main.qasm"), None::<&[std::path::PathBuf]>);
            let st = res.symbol_table();
            (st.verif_scope_depth(), st.verif_num_symbols(), res.any_syntax_errors())
        });
        let trace = oq3_semantics::verif::take_trace();
        // the first 8 records are SymbolTable::new(): enter Global + 7 built-ins with ids 0..6
        let init_ok = trace.len() >= 8 && trace[0].op == "enter" && trace[0].a == "Global"
            && trace[1..8].iter().enumerate().all(|(i, e)| e.op == "bind" && e.res == i as i64);
        // no operation at all: the pipeline found a syntax error that the tree does not show (for example in an include line); not analysed
        if trace.is_empty() && r.is_ok() { skipped_syntax += 1; continue; }
        // a panic before the symbol table exists (reading / parsing the source and its includes)
        if !init_ok { if let Err(p) = &r { panics.push(json!({"text": t, "panic": p})); analysed += 1; continue; } }
        if !init_ok { bad_init.push(json!({"text": t, "head": trace.iter().take(9).map(|e| format!("{:?}", e)).collect::<Vec<_>>() })); continue; }
        if trace.len() - 8 > max_ops { continue; }
        out.put(&json!({"ev": "reset", "text": t}));
        records += 1;
        for e in &trace[8..] {
            let v = match e.op {
                "enter" => json!({"ev": "enter", "kind": e.a}),
                "exit" => json!({"ev": "exit"}),
                "bind" => json!({"ev": "bind", "name": model_name(&e.a), "type": e.b, "id": e.res}),
                "bindfail" => json!({"ev": "bindfail", "name": model_name(&e.a), "type": e.b}),
                "lookup" => json!({"ev": "lookup", "name": model_name(&e.a), "id": e.res}),
                other => json!({"ev": other}),
            };
            out.put(&v);
            records += 1;
        }
        match r {
            Ok((depth, nsyms, syn)) => out.put(&json!({"ev": "done", "panicked": false, "depth": depth, "nsyms": nsyms, "syntax_errors": syn})),
            Err(p) => { panics.push(json!({"text": t, "panic": p})); out.put(&json!({"ev": "done", "panicked": true, "depth": -1, "nsyms": -1, "syntax_errors": false})) }
        }
        records += 1;
        analysed += 1;
    }
    std::fs::write(&args[5], serde_json::to_string(&json!({"analysed": analysed, "records": records, "skipped_syntax": skipped_syntax,
        "panics": panics, "bad_init": bad_init, "inputs": inputs.len()})).unwrap()).unwrap();
}
