//! Generic parser of Rust `{:?}` output into JSON, used to project ASG nodes that have no public
//! accessors.  `Name { a: 1, b: X(2) }` -> {"_":"Name","a":1,"b":{"_":"X","0":2}};
//! `[a, b]` -> [..]; `"str"` -> "str"; `Some(x)` -> x wrapped as {"_":"Some","0":x}; `None` -> null.
use serde_json::{json, Map, Value};

struct P<'a> {
    s: &'a [u8],
    i: usize,
}

impl<'a> P<'a> {
    fn ws(&mut self) {
        while self.i < self.s.len() && (self.s[self.i] as char).is_whitespace() {
            self.i += 1;
        }
    }
    fn peek(&self) -> u8 {
        if self.i < self.s.len() {
            self.s[self.i]
        } else {
            0
        }
    }
    fn ident(&mut self) -> String {
        let st = self.i;
        while self.i < self.s.len() {
            let c = self.s[self.i];
            if c.is_ascii_alphanumeric() || c == b'_' || c == b'-' || c == b'.' || c == b'+' || c >= 0x80 {
                self.i += 1;
            } else {
                break;
            }
        }
        String::from_utf8_lossy(&self.s[st..self.i]).to_string()
    }
    fn string(&mut self) -> Value {
        // at opening quote
        self.i += 1;
        let mut out: Vec<u8> = vec![];
        while self.i < self.s.len() {
            let c = self.s[self.i];
            if c == b'\\' && self.i + 1 < self.s.len() {
                let n = self.s[self.i + 1];
                match n {
                    b'n' => out.push(b'\n'),
                    b't' => out.push(b'\t'),
                    b'r' => out.push(b'\r'),
                    b'0' => out.push(0),
                    b'u' => {
                        // \u{XXXX}
                        let mut j = self.i + 3;
                        let mut hex = String::new();
                        while j < self.s.len() && self.s[j] != b'}' {
                            hex.push(self.s[j] as char);
                            j += 1;
                        }
                        if let Some(ch) = u32::from_str_radix(&hex, 16).ok().and_then(char::from_u32) {
                            let mut b = [0u8; 4];
                            out.extend_from_slice(ch.encode_utf8(&mut b).as_bytes());
                        }
                        self.i = j + 1;
                        continue;
                    }
                    other => out.push(other),
                }
                self.i += 2;
            } else if c == b'"' {
                self.i += 1;
                break;
            } else {
                out.push(c);
                self.i += 1;
            }
        }
        Value::String(String::from_utf8_lossy(&out).to_string())
    }
    fn value(&mut self) -> Value {
        self.ws();
        match self.peek() {
            b'"' => self.string(),
            b'[' => {
                self.i += 1;
                let mut v = vec![];
                loop {
                    self.ws();
                    if self.peek() == b']' {
                        self.i += 1;
                        break;
                    }
                    if self.peek() == 0 {
                        break;
                    }
                    v.push(self.value());
                    self.ws();
                    if self.peek() == b',' {
                        self.i += 1;
                    }
                }
                Value::Array(v)
            }
            b'(' => {
                // bare tuple
                let mut m = Map::new();
                m.insert("_".into(), json!("tuple"));
                self.tuple_fields(&mut m);
                Value::Object(m)
            }
            b'{' => {
                // set / map debug: treat as list of entries
                self.i += 1;
                let mut v = vec![];
                loop {
                    self.ws();
                    if self.peek() == b'}' {
                        self.i += 1;
                        break;
                    }
                    if self.peek() == 0 {
                        break;
                    }
                    let k = self.value();
                    self.ws();
                    if self.peek() == b':' {
                        self.i += 1;
                        let val = self.value();
                        v.push(json!([k, val]));
                    } else {
                        v.push(k);
                    }
                    self.ws();
                    if self.peek() == b',' {
                        self.i += 1;
                    }
                }
                Value::Array(v)
            }
            _ => {
                let id = self.ident();
                if id.is_empty() {
                    // unknown char: skip it
                    self.i += 1;
                    return Value::Null;
                }
                self.ws();
                match self.peek() {
                    b'{' => {
                        self.i += 1;
                        let mut m = Map::new();
                        m.insert("_".into(), json!(id));
                        loop {
                            self.ws();
                            if self.peek() == b'}' {
                                self.i += 1;
                                break;
                            }
                            if self.peek() == 0 {
                                break;
                            }
                            let k = self.ident();
                            self.ws();
                            if self.peek() == b':' {
                                self.i += 1;
                            }
                            let v = self.value();
                            m.insert(k, v);
                            self.ws();
                            if self.peek() == b',' {
                                self.i += 1;
                            }
                        }
                        Value::Object(m)
                    }
                    b'(' => {
                        let mut m = Map::new();
                        m.insert("_".into(), json!(id));
                        self.tuple_fields(&mut m);
                        Value::Object(m)
                    }
                    _ => {
                        if id == "None" {
                            Value::Null
                        } else if id == "true" {
                            json!(true)
                        } else if id == "false" {
                            json!(false)
                        } else if let Ok(n) = id.parse::<i64>() {
                            json!(n)
                        } else {
                            // big numbers / floats / unit variants stay strings
                            json!(id)
                        }
                    }
                }
            }
        }
    }
    fn tuple_fields(&mut self, m: &mut Map<String, Value>) {
        self.i += 1; // (
        let mut k = 0;
        loop {
            self.ws();
            if self.peek() == b')' {
                self.i += 1;
                break;
            }
            if self.peek() == 0 {
                break;
            }
            let v = self.value();
            m.insert(k.to_string(), v);
            k += 1;
            self.ws();
            if self.peek() == b',' {
                self.i += 1;
            }
        }
    }
}

pub fn debug_to_json(s: &str) -> Value {
    let mut p = P { s: s.as_bytes(), i: 0 };
    p.value()
}
