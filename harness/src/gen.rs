//! Input generators for the robustness corpus (C01, C02, C12, C14): corpus mutations, random UTF-8,
//! token soup, deep nesting.  Everything derives from the seed.
use rand::rngs::StdRng;
use rand::seq::SliceRandom;
use rand::Rng;

pub const WORDS: &[&str] = &[
    "OPENQASM", "OPENQASM 3.0;", "OPENQASM 3", "include", "\"stdgates.inc\"", "barrier", "box", "cal", "const", "def", "defcal",
    "defcalgrammar", "delay", "extern", "gate", "gphase", "let", "measure", "pragma", "#pragma", "#dim", "dim", "reset", "break", "case",
    "continue", "default", "else", "end", "for", "if", "in", "return", "switch", "while", "array", "creg", "input", "mutable",
    "output", "qreg", "qubit", "readonly", "void", "ctrl", "inv", "negctrl", "pow", "false", "true", "angle", "bit", "bool",
    "complex", "duration", "float", "int", "stretch", "uint", "a", "b", "x", "q", "f", "pi", "π", "τ", "変数", "café", "_", "$0",
    "$12", "0", "1", "42", "1_000", "0b101", "0B1", "0o17", "0xfF", "0XA", "1.5", ".5", "1.", "1e3", "2.5e-3", "1.e3", "3ns", "2.5us",
    "10 µs", "10µs", "4dt", "2im", "1.5 im", "\"0101\"", "\"abc\"", "'x'", "\"0_1\"", "@bind a", "@reversible", "!", "%", "&",
    "(", ")", "*", "+", ",", "-", ".", "/", ":", ";", "<", "=", ">", "?", "@", "[", "]", "^", "{", "|", "}", "~", "$", "#", "->",
    "==", "!=", "<=", ">=", "<<", ">>", "&&", "||", "**", "++", "+=", "-=", "*=", "/=", "<<=", ">>=", "..", "...", "::", "=>",
    "// c\n", "/* c */", "/* a /* b */ c */", "\n", " ", "\t", "\r\n",
];

const ODD: &[&str] = &["\0", "\"", "'", "\\", "😀", "é", "µ", "№", "\u{200d}", "\u{85}", "\u{2028}", "#p", "#pragm", "OPENQASM ", "0b", "0x", "1e", "/*", "*/", "//", "\u{301}", "€", "𝒳"];

pub fn random_text(rng: &mut StdRng, maxlen: usize) -> String {
    let n = rng.gen_range(0..=maxlen.min(200));
    let mut s = String::new();
    let style = rng.gen_range(0..4);
    for _ in 0..n {
        if s.len() >= maxlen {
            break;
        }
        let c = rng.gen_range(0..100);
        match style {
            0 => {
                // token soup with blanks
                s.push_str(WORDS.choose(rng).unwrap());
                if c < 70 {
                    s.push(' ');
                }
            }
            1 => {
                // ASCII-heavy characters
                if c < 70 {
                    s.push(rng.gen_range(0x20u8..0x7f) as char);
                } else if c < 85 {
                    s.push_str(ODD.choose(rng).unwrap());
                } else {
                    s.push_str(WORDS.choose(rng).unwrap());
                }
            }
            2 => {
                // arbitrary scalar values
                let cp: u32 = if c < 40 { rng.gen_range(0..0x80) } else if c < 70 { rng.gen_range(0x80..0x800) } else if c < 90 { rng.gen_range(0x800..0xFFFF) } else { rng.gen_range(0x10000..0x10FFFF) };
                if let Some(ch) = char::from_u32(cp) {
                    s.push(ch);
                }
            }
            _ => {
                // statement-like
                s.push_str(WORDS.choose(rng).unwrap());
                s.push_str(if c < 50 { " " } else if c < 60 { ";\n" } else if c < 65 { "" } else { " " });
                if c > 92 {
                    s.push_str(ODD.choose(rng).unwrap());
                }
            }
        }
    }
    while s.len() > maxlen {
        s.pop();
    }
    s
}

fn boundaries(t: &str) -> Vec<usize> {
    t.char_indices().map(|(i, _)| i).chain(std::iter::once(t.len())).collect()
}

pub fn mutate(rng: &mut StdRng, text: &str) -> String {
    let mut t = text.to_string();
    let nm = rng.gen_range(1..=3);
    for _ in 0..nm {
        let b = boundaries(&t);
        let i = b[rng.gen_range(0..b.len())];
        let j = b[rng.gen_range(0..b.len())];
        let (lo, hi) = if i <= j { (i, j) } else { (j, i) };
        let hi = hi.min(lo + 40);
        let hi = *b.iter().filter(|&&x| x <= hi).last().unwrap_or(&lo);
        match rng.gen_range(0..6) {
            0 => {
                t.replace_range(lo..hi, "");
            }
            1 => {
                let piece = t[lo..hi].to_string();
                t.insert_str(hi, &piece);
            }
            2 => {
                t.insert_str(lo, WORDS.choose(rng).unwrap());
            }
            3 => {
                t.insert_str(lo, ODD.choose(rng).unwrap());
            }
            4 => {
                t.truncate(lo);
            }
            _ => {
                t.replace_range(lo..hi, WORDS.choose(rng).unwrap());
            }
        }
        if t.len() > 8192 {
            let b = boundaries(&t);
            let cut = *b.iter().filter(|&&x| x <= 8192).last().unwrap();
            t.truncate(cut);
        }
    }
    t
}

pub fn nested(kind: usize, depth: usize) -> String {
    match kind % 10 {
        0 => format!("x = {}1{};", "(".repeat(depth), ")".repeat(depth)),
        1 => format!("x = a{}0{};", "[".repeat(depth), "]".repeat(depth)),
        2 => format!("{}{}", "{".repeat(depth), "}".repeat(depth)),
        3 => format!("x = {}1;", "-".repeat(depth)),
        4 => format!("{}x;", "if (1) ".repeat(depth)),
        5 => format!("x = {};", vec!["a"; depth + 1].join(" + ")),
        6 => format!("{}", "(".repeat(depth)),
        7 => format!("{}x = 1;{}", "while (1) { ".repeat(depth), " }".repeat(depth)),
        8 => format!("x = {}1{};", "f(".repeat(depth), ")".repeat(depth)),
        _ => format!("x = {}1;", "~!-".repeat(depth)),
    }
}

/// The robustness corpus: repository texts, mutations, random texts, nesting.
pub fn robustness_inputs(seed: u64, corpus: &[String], n_mut: usize, n_rand: usize) -> Vec<String> {
    let mut rng = crate::util::rng(seed);
    let mut v: Vec<String> = vec![String::new()];
    v.extend(corpus.iter().cloned());
    for k in 0..10 {
        for d in [1usize, 2, 5, 17, 64] {
            v.push(nested(k, d));
        }
    }
    if !corpus.is_empty() {
        for _ in 0..n_mut {
            let t = corpus.choose(&mut rng).unwrap();
            v.push(mutate(&mut rng, t));
        }
    }
    for _ in 0..n_rand {
        v.push(random_text(&mut rng, 4096));
    }
    v
}
