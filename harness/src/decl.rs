//! C09: declaration forms x types x widths enumerated by TLC from TypeRules.tla; the type recorded in
//! the symbol table is compared with the written one (or a designator diagnostic is required).
use crate::pipe::analyze_string;
use crate::util::*;
use serde_json::{json, Value};

fn all_kinds(l: &Value, out: &mut Vec<String>) {
    for d in l["list"].as_array().unwrap() {
        out.push(d["kind"].as_str().unwrap().to_string());
    }
    for i in l["included"].as_array().unwrap() {
        all_kinds(i, out);
    }
}

fn numbers_in(t: &str) -> Vec<String> {
    let mut v = vec![];
    let mut cur = String::new();
    for c in t.chars() {
        if c.is_ascii_digit() {
            cur.push(c);
        } else if !cur.is_empty() {
            v.push(std::mem::take(&mut cur));
        }
    }
    if !cur.is_empty() {
        v.push(cur);
    }
    v
}

/// decl-cases <decl.ndjson> <sig.ndjson> <out.json> [listing.ndjson]
pub fn cases(args: &[String]) {
    let decls = read_ndjson(&args[0]);
    let sigs = read_ndjson(&args[1]);
    let mut fails: Vec<Value> = vec![];
    let mut n = 0u64;
    for c in &decls {
        n += 1;
        let text = c["text"].as_str().unwrap();
        let sym = c["sym"].as_str().unwrap();
        let exp = &c["expect"];
        let o = analyze_string(text, None, false);
        let mut push = |kind: &str, what: &str, detail: Value| {
            if fails.len() < 500 {
                fails.push(json!({"kind": kind, "what": what, "form": c["form"], "text": text, "detail": detail, "site": detail["panic"]["func"], "wd": exp["wd"]}));
            }
        };
        if let Some(p) = o.get("panic") {
            push("panic", "analysis of a declaration panicked", json!({"panic": p}));
            continue;
        }
        let mut kinds = vec![];
        all_kinds(&o["sem_errors"], &mut kinds);
        let syn = o["any_syntax_errors"] == json!(true);
        let rec: Option<String> = o["symbols"].as_array().unwrap().iter().rev().find(|s| s["name"] == json!(sym)).map(|s| s["type"].as_str().unwrap().to_string());
        if exp["fits"] == json!(true) {
            if syn {
                push("rejected", "a valid declaration was rejected by the parser", json!({"errors": o["files"]["errors"]}));
            } else if rec.as_deref() != exp["type"].as_str() {
                push("wrong_type", "symbol table records a type different from the declared one", json!({"expected": exp["type"], "recorded": rec, "diagnostics": kinds}));
            }
        } else {
            // must be diagnosed; the recorded type must not carry some other number
            let diagnosed = syn || !kinds.is_empty();
            let wd = exp["wd"].as_str().unwrap();
            // "never SILENTLY replaced by another number": a different number together with a diagnostic is allowed
            let other_number = rec.as_ref().map(|t| numbers_in(t).iter().any(|x| x != wd)).unwrap_or(false);
            if !diagnosed {
                push(if other_number { "replaced" } else { "undiagnosed" },
                     "a width / length that does not fit or is not a constant non-negative integer is accepted without diagnostic", json!({"recorded": rec}));
            }
        }
    }
    for c in &sigs {
        n += 1;
        let text = c["text"].as_str().unwrap();
        let o = analyze_string(text, None, false);
        if let Some(p) = o.get("panic") {
            fails.push(json!({"kind": "panic", "what": "analysis of a definition panicked", "form": c["form"], "text": text, "detail": {"panic": p}, "site": p["func"]}));
            continue;
        }
        let syms = o["symbols"].as_array().unwrap();
        let find = |n: &str| syms.iter().rev().find(|s| s["name"] == json!(n)).map(|s| s["type"].clone());
        let mut bad: Option<Value> = None;
        if find(c["sym"].as_str().unwrap()) != Some(c["expect"]["type"].clone()) {
            bad = Some(json!({"expected": c["expect"]["type"], "recorded": find(c["sym"].as_str().unwrap())}));
        }
        for p in c["params"].as_array().unwrap() {
            if find(p["n"].as_str().unwrap()) != Some(p["type"].clone()) {
                bad = Some(json!({"param": p, "recorded": find(p["n"].as_str().unwrap())}));
            }
        }
        if c["form"] == json!("gate") {
            // gates(): exactly the user gate (no stdgates included here)
            let g = &o["gates"];
            let np = c["params"].as_array().unwrap().iter().filter(|p| p["type"] == json!("Angle(None, True)")).count();
            let nq = c["params"].as_array().unwrap().len() - np;
            let ok = g.as_array().map(|a| a.len() == 1 && a[0][0] == json!("g") && a[0][2] == json!(np) && a[0][3] == json!(nq)).unwrap_or(false);
            if !ok {
                bad = Some(json!({"gates_listing": g, "expected": ["g", np, nq]}));
            }
        }
        if let Some(d) = bad {
            fails.push(json!({"kind": "signature", "what": "gate / subroutine signature not recorded as declared", "form": c["form"], "text": text, "detail": d, "site": ""}));
        }
    }
    // gate listings (standard library, collisions with user gates)
    if args.len() > 3 {
        for c in &read_ndjson(&args[3]) {
            n += 1;
            let text = c["text"].as_str().unwrap();
            let o = analyze_string(text, None, false);
            if let Some(p) = o.get("panic") {
                fails.push(json!({"kind": "panic", "what": "analysis panicked", "form": c["form"], "text": text, "detail": {"panic": p}, "site": p["func"]}));
                continue;
            }
            let mut got: Vec<(String, u64, u64)> = o["gates"].as_array().unwrap().iter().map(|x| (x[0].as_str().unwrap().to_string(), x[2].as_u64().unwrap(), x[3].as_u64().unwrap())).collect();
            let mut want: Vec<(String, u64, u64)> = c["listing"].as_array().unwrap().iter().map(|x| (x[0].as_str().unwrap().to_string(), x[1].as_u64().unwrap(), x[2].as_u64().unwrap())).collect();
            got.sort();
            want.sort();
            let mut kinds = vec![];
            all_kinds(&o["sem_errors"], &mut kinds);
            let nredecl = kinds.iter().filter(|k| *k == "RedeclarationError").count() as u64;
            if got != want {
                fails.push(json!({"kind": "listing", "what": "gate listing is not exactly the standard-library and user gates with their arities", "form": c["form"], "text": text,
                    "detail": {"missing": want.iter().filter(|w| !got.contains(w)).collect::<Vec<_>>(), "unexpected": got.iter().filter(|g| !want.contains(g)).collect::<Vec<_>>()}, "site": ""}));
            } else if nredecl != c["redecl"].as_u64().unwrap() {
                fails.push(json!({"kind": "listing", "what": "colliding gate name not reported exactly once", "form": c["form"], "text": text, "detail": {"redeclarations": nredecl}, "site": ""}));
            }
        }
    }
    std::fs::write(&args[2], serde_json::to_string(&json!({"cases": n, "failures": fails})).unwrap()).unwrap();
}

/// relayout-cases <in.ndjson> <out.json>: every record {"text", "variants": [...]} - the variants differ from the text
/// in layout only (blanks, comments, line breaks); the analysis must observe the same symbols, diagnostics and graph.
pub fn relayout(args: &[String]) {
    use rayon::prelude::*;
    let recs = read_ndjson(&args[0]);
    let fails: std::sync::Mutex<Vec<Value>> = std::sync::Mutex::new(vec![]);
    let n = std::sync::atomic::AtomicU64::new(0);
    let obs = |t: &str| -> Value {
        let o = analyze_string(t, None, true);
        if let Some(p) = o.get("panic") {
            return json!({"panic": p["msg"]});
        }
        let mut kinds = vec![];
        all_kinds(&o["sem_errors"], &mut kinds);
        json!({"syntax": o["any_syntax_errors"], "symbols": o["symbols"], "diagnostics": kinds, "stmts": o["stmts"]})
    };
    recs.par_iter().for_each(|r| {
        let text = r["text"].as_str().unwrap();
        let base = obs(text);
        for v in r["variants"].as_array().unwrap() {
            n.fetch_add(1, std::sync::atomic::Ordering::Relaxed);
            let vt = v.as_str().unwrap();
            let o = obs(vt);
            if o != base {
                let mut f = fails.lock().unwrap();
                if f.len() < 200 {
                    let what = if o["symbols"] != base["symbols"] { "symbols" } else if o["diagnostics"] != base["diagnostics"] { "diagnostics" } else { "graph" };
                    f.push(json!({"text": text, "variant": vt, "differs_in": what,
                                  "base": {"symbols": base["symbols"], "diagnostics": base["diagnostics"]}, "observed": {"symbols": o["symbols"], "diagnostics": o["diagnostics"]}}));
                }
                break;
            }
        }
    });
    std::fs::write(&args[1], serde_json::to_string(&json!({"texts": recs.len(), "variants": n.into_inner(), "failures": fails.into_inner().unwrap()})).unwrap()).unwrap();
}
