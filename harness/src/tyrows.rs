//! C08: rows (target type x value type x value form, declarations and assignments; arithmetic operand
//! pairs) enumerated by TLC from TypeRules.tla; the harness analyses each program and reports what the
//! graph holds (value type, explicit cast, diagnostics) for the requirement to be evaluated.
use crate::pipe::analyze_string;
use crate::util::*;
use rayon::prelude::*;
use serde_json::{json, Value};
use std::sync::Mutex;

/// render a Type (Debug -> JSON) back to its Debug text
pub fn type_text(v: &Value) -> String {
    match v {
        Value::Null => "None".into(),
        Value::String(s) => s.clone(),
        Value::Number(n) => n.to_string(),
        Value::Bool(b) => b.to_string(),
        Value::Object(o) => {
            let name = o.get("_").and_then(|x| x.as_str()).unwrap_or("?");
            let mut args = vec![];
            let mut i = 0;
            while let Some(a) = o.get(&i.to_string()) {
                args.push(type_text(a));
                i += 1;
            }
            if args.is_empty() { name.to_string() } else { format!("{}({})", name, args.join(", ")) }
        }
        Value::Array(a) => format!("[{}]", a.iter().map(type_text).collect::<Vec<_>>().join(", ")),
    }
}

fn strip_const(t: &str) -> String {
    t.replace(", True)", ", _)").replace(", False)", ", _)").replace("(True)", "(_)").replace("(False)", "(_)")
}

fn kinds(l: &Value) -> Vec<String> {
    let mut v: Vec<String> = l["list"].as_array().unwrap().iter().map(|d| d["kind"].as_str().unwrap().to_string()).collect();
    for i in l["included"].as_array().unwrap() {
        v.extend(kinds(i));
    }
    v
}

fn is_type_diag(k: &str) -> bool {
    matches!(k, "IncompatibleTypesError" | "CastError" | "IncompatibleDimensionError" | "ConstIntegerError")
}

/// strip TExpr wrapper: returns (expression node, type text)
fn texpr(v: &Value) -> (&Value, String) {
    (&v["expression"], type_text(&v["ty"]))
}

/// ty-rows <rows.ndjson> <arith.ndjson> <out.json>
pub fn rows(args: &[String]) {
    let rows = read_ndjson(&args[0]);
    let arith = read_ndjson(&args[1]);
    let fails: Mutex<Vec<Value>> = Mutex::new(vec![]);
    let stats = Mutex::new(std::collections::BTreeMap::<String, u64>::new());
    rows.par_iter().for_each(|r| {
        let text = r["text"].as_str().unwrap();
        let pre = r["pre"].as_str().unwrap();
        let push = |kind: &str, what: &str, detail: Value| {
            let mut f = fails.lock().unwrap();
            if f.len() < 20000 {
                f.push(json!({"kind": kind, "what": what, "stmt": r["stmt"], "form": r["form"], "tb": r["tb"], "vb": r["vb"], "tw": r["tw"], "vw": r["vw"],
                              "text": text, "target": r["target"], "value": r["value"], "must": r["must"], "detail": detail}));
            }
        };
        let o = analyze_string(text, None, true);
        if let Some(p) = o.get("panic") {
            push("panic", "analysis panicked", json!({"site": p["func"], "msg": p["msg"]}));
            return;
        }
        if o["any_syntax_errors"] == json!(true) {
            push("syntax", "row does not parse", json!({"errors": o["files"]["errors"]}));
            return;
        }
        let opre = analyze_string(pre, None, false);
        let npre = if opre.get("panic").is_some() { 0 } else { kinds(&opre["sem_errors"]).len() };
        let all = kinds(&o["sem_errors"]);
        let own: Vec<String> = all.iter().skip(npre).cloned().collect();
        let diagnosed = own.iter().any(|k| is_type_diag(k));
        // the statement under test is the last one
        let st = o["stmts"].as_array().unwrap().last().cloned().unwrap_or(Value::Null);
        let node = &st["0"];
        let val = if r["stmt"] == json!("decl") { &node["initializer"]["0"] } else { &node["rvalue"] };
        if val.is_null() {
            push("shape", "statement under test not found in the graph", json!({"stmt": st}));
            return;
        }
        let (_e, vty) = texpr(val);
        let target = r["target"].as_str().unwrap();
        let form = r["form"].as_str().unwrap();
        // chain of Cast nodes from the top; for the "cast" form the innermost cast is the user's expression
        let mut chain: Vec<&Value> = vec![val];
        loop {
            let cur = chain[chain.len() - 1];
            if cur["expression"]["_"] == json!("Cast") {
                chain.push(&cur["expression"]["0"]["operand"]);
            } else {
                break;
            }
        }
        let explicit = if form == "cast" { 1 } else { 0 };
        let ncasts = chain.len() - 1;
        let n_implicit = ncasts.saturating_sub(explicit);
        let is_cast = n_implicit > 0;
        let cast_typ = if is_cast { type_text(&val["expression"]["0"]["typ"]) } else { String::new() };
        // the user's value expression (under the implicit casts) and its type
        let inner_ty = type_text(&chain[n_implicit]["ty"]);
        let direct = strip_const(&vty) == strip_const(target) && !is_cast;
        let by_cast = is_cast && n_implicit == 1 && cast_typ == target && vty == target;
        {
            let mut s = stats.lock().unwrap();
            *s.entry(if diagnosed { "diagnosed".into() } else if direct { "direct".into() } else if by_cast { "cast".into() } else { "other".to_string() }).or_insert(0) += 1;
        }
        if !(diagnosed || direct || by_cast) {
            push("unconverted", "value type differs from the target type without explicit cast to exactly the target type and without type diagnostic",
                 json!({"value_type": vty, "cast_to": cast_typ, "diagnostics": own}));
        } else if r["must"] == json!(true) && !diagnosed {
            push("undiagnosed", "a conversion that must always be diagnosed is accepted silently", json!({"value_type": vty, "cast_to": cast_typ}));
        }
        // (1) the value expression's own type: identifier = its symbol's type, literal = its class (const), cast = its target, measurement = bit
        let expect_inner = r["value"].as_str().unwrap();
        let inner_ok = match form {
            "lit" => inner_ty.starts_with(expect_inner) && (inner_ty.ends_with("True)")),
            "arith" => true, // checked by the ARITH rows
            "measure-slice" => inner_ty.starts_with(expect_inner),
            _ => inner_ty == expect_inner,
        };
        if !inner_ok {
            push("expr_type", "expression does not carry the type of its symbol / literal class / cast target / measured operand", json!({"expected": expect_inner, "observed": inner_ty}));
        }
    });
    // arithmetic: the expression has one type C; each operand either has type C or is an explicit cast to C
    arith.par_iter().for_each(|r| {
        let text = r["text"].as_str().unwrap();
        let o = analyze_string(text, None, true);
        let push = |kind: &str, what: &str, detail: Value| {
            fails.lock().unwrap().push(json!({"kind": kind, "what": what, "stmt": "arith", "form": r["op"], "lform": r["lform"], "rform": r["rform"], "text": text, "lt": r["lt"], "rt": r["rt"], "detail": detail}));
        };
        if let Some(p) = o.get("panic") {
            push("panic", "analysis panicked", json!({"site": p["func"], "msg": p["msg"]}));
            return;
        }
        if o["any_syntax_errors"] == json!(true) {
            push("syntax", "row does not parse", json!({}));
            return;
        }
        let st = o["stmts"].as_array().unwrap().last().cloned().unwrap_or(Value::Null);
        let (e, c) = texpr(&st["0"]);
        if e["_"] != json!("BinaryExpr") {
            push("shape", "binary expression not found", json!({}));
            return;
        }
        let b = &e["0"];
        for side in ["left", "right"] {
            let (_se, sty) = texpr(&b[side]);
            let declared = if side == "left" { r["lt"].as_str().unwrap() } else { r["rt"].as_str().unwrap() };
            let form = if side == "left" { r["lform"].as_str().unwrap_or("var") } else { r["rform"].as_str().unwrap_or("var") };
            // peel the Cast nodes from the top; for the "cast" form the innermost one is the user's expression
            let mut chain: Vec<&Value> = vec![&b[side]];
            loop {
                let cur = chain[chain.len() - 1];
                if cur["expression"]["_"] == json!("Cast") {
                    chain.push(&cur["expression"]["0"]["operand"]);
                } else {
                    break;
                }
            }
            let explicit = if form == "cast" { 1 } else { 0 };
            let n_implicit = (chain.len() - 1).saturating_sub(explicit);
            let own_ty = type_text(&chain[n_implicit]["ty"]);
            // (1) the operand expression itself carries the type of its symbol / cast target / literal class / return type
            // (2) it is of the expression's type (up to const-ness), or wrapped in ONE explicit cast to exactly that type
            let ok = own_ty == declared
                && if n_implicit == 0 {
                    strip_const(&sty) == strip_const(&c)
                } else {
                    n_implicit == 1 && type_text(&b[side]["expression"]["0"]["typ"]) == c && sty == c
                };
            if !ok {
                push("arith_operand", "operand of an arithmetic expression is neither of the expression's type nor explicitly cast to it",
                     json!({"side": side, "expr_type": c, "operand_type": sty, "declared": declared, "own_type": own_ty, "implicit_casts": n_implicit, "form": form}));
                return;
            }
        }
        if c == "Void" || c == "Undefined" || c == "ToDo" {
            push("arith_type", "arithmetic expression over numeric operands has no type", json!({"expr_type": c}));
            return;
        }
        // the expression's type is the common type of the operands (TypeRules.Common); '/' over two integer
        // operands may also be typed as the unsized float (named deviation Dev_IntDivisionIsFloat)
        let common = r["common"].as_str().unwrap_or("");
        if !common.is_empty() && strip_const(&c) != strip_const(common) && !(r["intdiv"] == json!(true) && c == "Float(None, False)") {
            push("arith_common", "arithmetic expression does not have the common type of its operands", json!({"expr_type": c, "common": common}));
        }
    });
    let out = json!({"rows": rows.len(), "arith": arith.len(), "outcomes": *stats.lock().unwrap(), "failures": fails.into_inner().unwrap()});
    std::fs::write(&args[2], serde_json::to_string(&out).unwrap()).unwrap();
}
