//! Parser-side bindings (C01, C02, C12): both public entry points on arbitrary texts, tree/diagnostic
//! monitors, exhaustive token sequences through `oq3_parser::Input`, trace recording for TLC.
use crate::util::*;
use oq3_parser::{Input, SyntaxKind, TopEntryPoint};
use oq3_syntax::{NodeOrToken, SourceFile, SyntaxNode};
use rayon::prelude::*;
use serde_json::{json, Value};
use std::sync::atomic::{AtomicU64, Ordering};
use std::sync::Mutex;

/// Flatten a tree to preorder rows [depth, is_token, start, end, is_error_kind].
fn flatten(root: &SyntaxNode) -> Vec<[u32; 5]> {
    let mut rows = vec![];
    fn go(n: &SyntaxNode, d: u32, rows: &mut Vec<[u32; 5]>) {
        let r = n.text_range();
        rows.push([d, 0, r.start().into(), r.end().into(), (n.kind() == SyntaxKind::ERROR) as u32]);
        for c in n.children_with_tokens() {
            match c {
                NodeOrToken::Node(m) => go(&m, d + 1, rows),
                NodeOrToken::Token(t) => {
                    let r = t.text_range();
                    rows.push([d + 1, 1, r.start().into(), r.end().into(), (t.kind() == SyntaxKind::ERROR) as u32]);
                }
            }
        }
    }
    go(root, 0, &mut rows);
    rows
}

pub struct ParseObs {
    pub entry: &'static str,
    pub have_tree: bool,
    pub root_is_source_file: bool,
    pub rows: Vec<[u32; 5]>,
    pub diags: Vec<(u32, u32)>,
    pub leaf_text_equal: bool,
    pub events: usize,
}

pub fn observe(text: &str, check_lex: bool) -> Result<ParseObs, Value> {
    note_input(text);
    guarded(|| {
        if check_lex {
            let p = SourceFile::parse_check_lex(text);
            let diags = p.errors().iter().map(|e| (e.range().start().into(), e.range().end().into())).collect();
            if p.have_parse() {
                let root = p.syntax_node();
                let leaf: String = root.descendants_with_tokens().filter_map(|e| e.into_token()).map(|t| t.text().to_string()).collect();
                ParseObs { entry: "parse_check_lex", have_tree: true, root_is_source_file: root.kind() == SyntaxKind::SOURCE_FILE,
                    rows: flatten(&root), diags, leaf_text_equal: leaf == text, events: oq3_parser::verif::last_event_count() }
            } else {
                ParseObs { entry: "parse_check_lex", have_tree: false, root_is_source_file: false, rows: vec![], diags, leaf_text_equal: true, events: 0 }
            }
        } else {
            let p = SourceFile::parse(text);
            let root = p.syntax_node();
            let diags = p.errors().iter().map(|e| (e.range().start().into(), e.range().end().into())).collect();
            let leaf: String = root.descendants_with_tokens().filter_map(|e| e.into_token()).map(|t| t.text().to_string()).collect();
            ParseObs { entry: "parse", have_tree: true, root_is_source_file: root.kind() == SyntaxKind::SOURCE_FILE,
                rows: flatten(&root), diags, leaf_text_equal: leaf == text, events: oq3_parser::verif::last_event_count() }
        }
    })
}

/// The monitors of C02 / C12 (syntax part) / C01 (linear work) on one observation.  Same clauses as
/// TreeTrace.tla.
pub fn tree_violation(text: &str, o: &ParseObs, ntokens: usize) -> Option<Value> {
    let len = text.len() as u32;
    // C12: spans
    for (s, e) in &o.diags {
        if !(s <= e && *e <= len) {
            return Some(json!({"prop":"C12","kind":"span","what":"diagnostic range not within 0 <= start <= end <= len","range":[s,e],"len":len}));
        }
        if !text.is_char_boundary(*s as usize) || !text.is_char_boundary(*e as usize) {
            return Some(json!({"prop":"C12","kind":"span","what":"diagnostic range not on character boundaries","range":[s,e]}));
        }
    }
    if !o.have_tree {
        return None;
    }
    let has_err = o.rows.iter().any(|r| r[4] == 1);
    if has_err && o.diags.is_empty() {
        return Some(json!({"prop":"C12","kind":"error_node_without_diag","what":"tree contains an error node/token but no diagnostic was reported"}));
    }
    // C02
    if !o.root_is_source_file {
        return Some(json!({"prop":"C02","kind":"tree","what":"root is not a source-file node"}));
    }
    if !o.leaf_text_equal {
        return Some(json!({"prop":"C02","kind":"tree","what":"concatenated leaf texts differ from the input"}));
    }
    let rows = &o.rows;
    if rows[0][2] != 0 || rows[0][3] != len {
        return Some(json!({"prop":"C02","kind":"tree","what":"root does not span [0, len)","root":[rows[0][2],rows[0][3]],"len":len}));
    }
    // tokens tile [0,len)
    let mut pos = 0u32;
    for r in rows.iter().filter(|r| r[1] == 1) {
        if r[2] != pos || r[3] <= r[2] && !(r[3] == r[2]) {
            return Some(json!({"prop":"C02","kind":"tree","what":"leaf tokens do not tile the input","at":pos,"token":[r[2],r[3]]}));
        }
        pos = r[3];
    }
    if pos != len {
        return Some(json!({"prop":"C02","kind":"tree","what":"leaf tokens end before the input does","end":pos,"len":len}));
    }
    // every node's range = span of its children, children contiguous
    let mut stack: Vec<(usize, u32, Option<u32>)> = vec![]; // (row index, depth, end of last child)
    let check_close = |idx: usize, last: Option<u32>| -> Option<Value> {
        let r = rows[idx];
        match last {
            Some(e) if e != r[3] => Some(json!({"prop":"C02","kind":"tree","what":"node range end differs from its last child's end","node":[r[2],r[3]],"child_end":e})),
            None if r[2] != r[3] => Some(json!({"prop":"C02","kind":"tree","what":"childless node with non-empty range","node":[r[2],r[3]]})),
            _ => None,
        }
    };
    for (i, r) in rows.iter().enumerate() {
        while let Some(&(pi, pd, last)) = stack.last() {
            if pd >= r[0] {
                if let Some(v) = check_close(pi, last) {
                    return Some(v);
                }
                stack.pop();
            } else {
                break;
            }
        }
        if let Some(top) = stack.last_mut() {
            let expect = top.2.unwrap_or(rows[top.0][2]);
            if r[2] != expect {
                return Some(json!({"prop":"C02","kind":"tree","what":"children do not tile their parent","parent":[rows[top.0][2],rows[top.0][3]],"child":[r[2],r[3]],"expected_start":expect}));
            }
            top.2 = Some(r[3]);
        }
        if r[1] == 0 {
            stack.push((i, r[0], None));
        }
    }
    while let Some((pi, _, last)) = stack.pop() {
        if let Some(v) = check_close(pi, last) {
            return Some(v);
        }
    }
    // C01: linear work
    if o.events > 64 * (ntokens + 1) {
        return Some(json!({"prop":"C01","kind":"work","what":"number of parser events exceeds 64 * (tokens + 1)","events":o.events,"tokens":ntokens}));
    }
    None
}

fn ntokens(text: &str) -> usize {
    oq3_lexer::tokenize(text).count()
}

/// Run both entry points on a text; return violations (with the property they belong to).
pub fn check_text(text: &str) -> Vec<Value> {
    let mut out = vec![];
    note_input(text);
    let nt = guarded(|| ntokens(text)).unwrap_or(0);
    let mut trees: Vec<Option<Vec<[u32; 5]>>> = vec![];
    for check_lex in [false, true] {
        match observe(text, check_lex) {
            Err(p) => {
                out.push(json!({"prop":"C01","kind":"panic","what": format!("{} panicked", if check_lex {"parse_check_lex"} else {"parse"}),
                    "entry": if check_lex {"parse_check_lex"} else {"parse"}, "panic": p}));
                trees.push(None);
            }
            Ok(o) => {
                if let Some(mut v) = tree_violation(text, &o, nt) {
                    v["entry"] = json!(o.entry);
                    out.push(v);
                }
                // lex-checked parse: tree iff no lexical error (C11 clause, holds for every input)
                if check_lex {
                    let lexerr = !oq3_parser::LexedStr::new(text).errors_is_empty();
                    if o.have_tree == lexerr {
                        out.push(json!({"prop":"C11","kind":"gating","what":"lex-checked parse returned a tree iff-no-lexical-error violated","have_tree":o.have_tree,"lexical_errors":lexerr}));
                    }
                }
                trees.push(if o.have_tree { Some(o.rows) } else { None });
            }
        }
    }
    // both entry points must build the same tree when both build one
    if let (Some(Some(a)), Some(Some(b))) = (trees.first(), trees.get(1)) {
        if a != b {
            out.push(json!({"prop":"C02","kind":"tree","what":"the two entry points build different trees for the same text"}));
        }
    }
    out
}

pub fn tree_event(text: &str, check_lex: bool) -> Value {
    let ascii = text.is_ascii();
    let bounds: Vec<usize> = if ascii { vec![] } else { text.char_indices().map(|(i, _)| i).chain(std::iter::once(text.len())).collect() };
    match observe(text, check_lex) {
        Err(p) => json!({"ev":"panic","entry": if check_lex {"parse_check_lex"} else {"parse"},"panic":p,"text":text}),
        Ok(o) => json!({"ev":"tree","text":text,"entry":o.entry,"len":text.len(),"ascii":ascii,"bounds":bounds,"have_tree":o.have_tree,
            "root_ok":o.root_is_source_file,"leaf_eq":o.leaf_text_equal,
            "rows":o.rows.iter().map(|r| json!({"d":r[0],"t":r[1],"s":r[2],"e":r[3],"x":r[4]})).collect::<Vec<_>>(),
            "diags":o.diags.iter().map(|d| json!({"s":d.0,"e":d.1})).collect::<Vec<_>>(),
            "lexerr": !oq3_parser::LexedStr::new(text).errors_is_empty()}),
    }
}

fn push_fail(fails: &Mutex<Vec<Value>>, mut v: Value, text: &str, cap: usize) {
    let mut f = fails.lock().unwrap();
    // keep at most a few per (prop, kind, site)
    let site = v["panic"]["func"].as_str().unwrap_or("").to_string();
    let key = format!("{}|{}|{}|{}", v["prop"], v["kind"], site, v["panic"]["msg"].as_str().map(|m| &m[..m.len().min(30)]).unwrap_or(""));
    let n = f.iter().filter(|x| x["key"] == json!(key)).count();
    if n < 3 && f.len() < cap {
        v["key"] = json!(key);
        v["text"] = json!(text);
        f.push(v);
    } else if n >= 3 {
        // prefer shorter witnesses
        if let Some(x) = f.iter_mut().filter(|x| x["key"] == json!(key)).max_by_key(|x| x["text"].as_str().map(|s| s.len()).unwrap_or(0)) {
            if x["text"].as_str().map(|s| s.len()).unwrap_or(0) > text.len() {
                v["key"] = json!(key);
                v["text"] = json!(text);
                *x = v;
            }
        }
    }
}

/// parse-record <seed> <corpus.json> <n_mut> <n_rand> <events.ndjson> <out.json> [extra.json]
pub fn record(args: &[String]) {
    let seed: u64 = args[0].parse().unwrap();
    let corpus: Vec<String> = serde_json::from_str(&std::fs::read_to_string(&args[1]).unwrap()).unwrap();
    let n_mut: usize = args[2].parse().unwrap();
    let n_rand: usize = args[3].parse().unwrap();
    let mut inputs = crate::gen::robustness_inputs(seed, &corpus, n_mut, n_rand);
    if args.len() > 6 {
        let extra: Vec<String> = serde_json::from_str(&std::fs::read_to_string(&args[6]).unwrap()).unwrap();
        inputs.extend(extra.into_iter().map(|s| crate::lex::expand(&s)));
    }
    let sample: usize = std::env::var("TREE_TRACE_SAMPLE").ok().and_then(|s| s.parse().ok()).unwrap_or(300);
    let fails: Mutex<Vec<Value>> = Mutex::new(vec![]);
    let clean = AtomicU64::new(0);
    inputs.par_iter().for_each(|t| {
        let vs = check_text(t);
        if vs.is_empty() {
            clean.fetch_add(1, Ordering::Relaxed);
        }
        for v in vs {
            push_fail(&fails, v, t, 400);
        }
    });
    let mut out = NdjsonOut::create(&args[4]);
    let step = (inputs.len() / sample.max(1)).max(1);
    let mut recorded = 0;
    for (i, t) in inputs.iter().enumerate() {
        if i % step == 0 && t.len() <= 400 {
            out.put(&tree_event(t, false));
            out.put(&tree_event(t, true));
            recorded += 2;
        }
    }
    let maxlen = inputs.iter().map(|t| t.len()).max().unwrap_or(0);
    let o = json!({"inputs": inputs.len(), "clean": clean.load(Ordering::Relaxed), "recorded": recorded, "max_len": maxlen,
                   "failures": fails.into_inner().unwrap(),
                   "samples": inputs.iter().skip(250).step_by(inputs.len() / 4 + 1).take(4).collect::<Vec<_>>()});
    std::fs::write(&args[5], serde_json::to_string(&o).unwrap()).unwrap();
}

// ---------------------------------------------------------------- exhaustive token sequences

/// The token alphabet the lexer can produce, with a representative text for each kind.
pub fn alphabet() -> Vec<(SyntaxKind, &'static str, bool)> {
    use SyntaxKind::*;
    let mut v: Vec<(SyntaxKind, &'static str, bool)> = vec![
        (BANG, "!", true), (DOLLAR, "$", true), (PERCENT, "%", true), (AMP, "&", true), (L_PAREN, "(", true), (R_PAREN, ")", true),
        (STAR, "*", true), (PLUS, "+", true), (COMMA, ",", true), (MINUS, "-", true), (DOT, ".", true), (SLASH, "/", true),
        (COLON, ":", true), (SEMICOLON, ";", true), (L_ANGLE, "<", true), (EQ, "=", true), (R_ANGLE, ">", true), (QUESTION, "?", true),
        (AT, "@", true), (L_BRACK, "[", true), (R_BRACK, "]", true), (CARET, "^", true), (L_CURLY, "{", true), (PIPE, "|", true),
        (R_CURLY, "}", true), (TILDE, "~", true), (UNDERSCORE, "_", false),
    ];
    let kws: [(SyntaxKind, &'static str); 45] = [
        (O_P_E_N_Q_A_S_M_KW, "OPENQASM"), (BARRIER_KW, "barrier"), (BOX_KW, "box"), (CAL_KW, "cal"), (CONST_KW, "const"), (DEF_KW, "def"),
        (DEFCAL_KW, "defcal"), (DEFCALGRAMMAR_KW, "defcalgrammar"), (DELAY_KW, "delay"), (EXTERN_KW, "extern"), (GATE_KW, "gate"),
        (GPHASE_KW, "gphase"), (INCLUDE_KW, "include"), (LET_KW, "let"), (MEASURE_KW, "measure"), (PRAGMA_KW, "pragma"), (DIM_KW, "dim"),
        (RESET_KW, "reset"), (BREAK_KW, "break"), (CASE_KW, "case"), (CONTINUE_KW, "continue"), (DEFAULT_KW, "default"), (ELSE_KW, "else"),
        (END_KW, "end"), (FOR_KW, "for"), (IF_KW, "if"), (IN_KW, "in"), (RETURN_KW, "return"), (SWITCH_KW, "switch"), (WHILE_KW, "while"),
        (ARRAY_KW, "array"), (CREG_KW, "creg"), (INPUT_KW, "input"), (MUTABLE_KW, "mutable"), (OUTPUT_KW, "output"), (QREG_KW, "qreg"),
        (QUBIT_KW, "qubit"), (READONLY_KW, "readonly"), (VOID_KW, "void"), (CTRL_KW, "ctrl"), (INV_KW, "inv"), (NEGCTRL_KW, "negctrl"),
        (POW_KW, "pow"), (FALSE_KW, "false"), (TRUE_KW, "true"),
    ];
    for (k, t) in kws {
        v.push((k, t, false));
    }
    for (k, t) in [(ANGLE_TY, "angle"), (BIT_TY, "bit"), (BOOL_TY, "bool"), (COMPLEX_TY, "complex"), (DURATION_TY, "duration"),
        (FLOAT_TY, "float"), (INT_TY, "int"), (STRETCH_TY, "stretch"), (UINT_TY, "uint")] {
        v.push((k, t, false));
    }
    for (k, t) in [(BIT_STRING, "\"01\""), (FLOAT_NUMBER, "1.5"), (INT_NUMBER, "1"), (STRING, "\"s\""), (ANNOTATION, "@a\n"), (ERROR, "\u{2116}"),
        (HARDWAREIDENT, "$0"), (IDENT, "a"), (PRAGMA, "pragma x\n"), (VERSION_STRING, "OPENQASM 3.0 ")] {
        v.push((k, t, false));
    }
    v
}

fn build_input(alpha: &[(SyntaxKind, &'static str, bool)], seq: &[usize], joint_mask: u32) -> Input {
    let mut inp = Input::default();
    for (i, &s) in seq.iter().enumerate() {
        inp.push(alpha[s].0);
        // token i is joint to token i+1
        let j = if alpha[s].0 == SyntaxKind::FLOAT_NUMBER { true } else { i + 1 < seq.len() && (joint_mask >> i) & 1 == 1 };
        if j {
            inp.was_joint();
        }
    }
    inp
}

fn render(alpha: &[(SyntaxKind, &'static str, bool)], seq: &[usize], joint_mask: u32) -> String {
    let mut t = String::new();
    for (i, &s) in seq.iter().enumerate() {
        t.push_str(alpha[s].1);
        if i + 1 < seq.len() {
            let both_punct = alpha[s].2 && alpha[seq[i + 1]].2;
            if !(both_punct && (joint_mask >> i) & 1 == 1) {
                t.push(' ');
            }
        }
    }
    t
}

/// parse-tokens <maxlen_input_all_masks> <maxlen_input_joint_only> <maxlen_text> <out.json>
pub fn tokens(args: &[String]) {
    let l_all: usize = args[0].parse().unwrap();
    let l_joint: usize = args[1].parse().unwrap();
    let l_text: usize = args[2].parse().unwrap();
    let alpha = alphabet();
    let k = alpha.len();
    let fails: Mutex<Vec<Value>> = Mutex::new(vec![]);
    let n_input = AtomicU64::new(0);
    let n_text = AtomicU64::new(0);
    let maxl = l_all.max(l_joint).max(l_text);
    let run_seq = |seq: &[usize]| {
        let n = seq.len();
        let masks: Vec<u32> = if n <= l_all { (0..(1u32 << n.saturating_sub(1))).collect() } else if n <= l_joint { vec![(1u32 << n.saturating_sub(1)) - 1] } else { vec![] };
        for m in masks {
            let inp = build_input(&alpha, seq, m);
            n_input.fetch_add(1, Ordering::Relaxed);
            let r = guarded(|| {
                let out = TopEntryPoint::SourceFile.parse(&inp);
                let steps = out.iter().count();
                (steps, oq3_parser::verif::last_event_count())
            });
            match r {
                Err(p) => {
                    let txt = format!("kinds {:?} joint-mask {:b}", seq.iter().map(|&s| alpha[s].0).collect::<Vec<_>>(), m);
                    push_fail(&fails, json!({"prop":"C01","kind":"panic","what":"TopEntryPoint::SourceFile.parse panicked on a token sequence","entry":"Input","panic":p,
                        "rendered": render(&alpha, seq, m)}), &txt, 600);
                }
                Ok((_steps, events)) => {
                    if events > 64 * (n + 1) {
                        let txt = format!("kinds {:?} joint-mask {:b}", seq.iter().map(|&s| alpha[s].0).collect::<Vec<_>>(), m);
                        push_fail(&fails, json!({"prop":"C01","kind":"work","what":"number of parser events exceeds 64 * (tokens + 1)","events":events,"tokens":n}), &txt, 600);
                    }
                }
            }
        }
        if n <= l_text {
            for m in [0u32, (1u32 << n.saturating_sub(1)).wrapping_sub(1)] {
                let t = render(&alpha, seq, m);
                n_text.fetch_add(1, Ordering::Relaxed);
                for v in check_text(&t) {
                    push_fail(&fails, v, &t, 600);
                }
                if n <= 1 {
                    break;
                }
            }
        }
    };
    run_seq(&[]);
    (0..k).into_par_iter().for_each(|a| {
        run_seq(&[a]);
        if maxl >= 2 {
            for b in 0..k {
                let mut seq = vec![a, b];
                run_seq(&seq);
                // extend
                fn ext(seq: &mut Vec<usize>, k: usize, maxl: usize, f: &dyn Fn(&[usize])) {
                    if seq.len() >= maxl {
                        return;
                    }
                    for c in 0..k {
                        seq.push(c);
                        f(seq);
                        ext(seq, k, maxl, f);
                        seq.pop();
                    }
                }
                ext(&mut seq, k, maxl, &run_seq);
            }
        }
    });
    let o = json!({"input_sequences": n_input.load(Ordering::Relaxed), "texts": n_text.load(Ordering::Relaxed), "alphabet": k,
                   "failures": fails.into_inner().unwrap()});
    std::fs::write(&args[3], serde_json::to_string(&o).unwrap()).unwrap();
}

/// check-text <file>: run the monitors on one text (replay)
pub fn check_one(args: &[String]) {
    let text = std::fs::read_to_string(&args[0]).unwrap();
    let vs = check_text(&text);
    println!("{}", serde_json::to_string_pretty(&vs).unwrap());
}

/// events <text>: dump raw parser events (hook H2) and Output steps
pub fn dump_events(args: &[String]) {
    let text = crate::lex::expand(&args[0]);
    let lexed = oq3_parser::LexedStr::new(&text);
    let inp = lexed.to_input();
    oq3_parser::verif::keep_events(true);
    let out = TopEntryPoint::SourceFile.parse(&inp);
    for (i, e) in oq3_parser::verif::last_events().iter().enumerate() {
        let k: SyntaxKind = e.1.into();
        println!("{i}: {} {:?} n={} fwd={:?}", e.0, k, e.2, e.3);
    }
    for s in out.iter() {
        println!("{:?}", s);
    }
}

// ------------------------------------------------------------------ grammar machine spec (spec/pgrammar/Grammar.tla)

fn kinds_by_name() -> std::collections::HashMap<String, SyntaxKind> {
    let mut m = std::collections::HashMap::new();
    for d in 0u16..=(SyntaxKind::__LAST as u16) {
        let k: SyntaxKind = d.into();
        m.insert(format!("{:?}", k), k);
    }
    m
}

/// Run the real parser on an `Input` given as [(kind name, joint)], return the raw event list in the model's vocabulary
/// ([tag, kind, fwd, n]; an error event carries its message in `kind`).
pub fn real_events(names: &std::collections::HashMap<String, SyntaxKind>, toks: &[(String, bool)]) -> Result<Vec<Value>, Value> {
    let mut inp = Input::default();
    for (k, j) in toks {
        inp.push(*names.get(k).unwrap_or_else(|| panic!("unknown kind {k}")));
        if *j {
            inp.was_joint();
        }
    }
    guarded(|| {
        oq3_parser::verif::keep_events(true);
        let out = TopEntryPoint::SourceFile.parse(&inp);
        let raw = oq3_parser::verif::last_events();
        let msgs: Vec<String> = out.iter().filter_map(|s| match s { oq3_parser::Step::Error { msg } => Some(msg.to_string()), _ => None }).collect();
        let mut mi = 0usize;
        raw.iter().map(|e| {
            let kname = |k: u16| { let sk: SyntaxKind = k.into(); if sk == SyntaxKind::TOMBSTONE { "T".to_string() } else { format!("{:?}", sk) } };
            match e.0 {
                "start" => json!({"tag": "start", "kind": kname(e.1), "fwd": e.3.unwrap_or(0), "n": 0}),
                "finish" => json!({"tag": "finish", "kind": "-", "fwd": 0, "n": 0}),
                "token" => json!({"tag": "token", "kind": kname(e.1), "fwd": 0, "n": e.2}),
                _ => { let m = msgs.get(mi).cloned().unwrap_or_default(); mi += 1; json!({"tag": "error", "kind": m, "fwd": 0, "n": 0}) }
            }
        }).collect::<Vec<_>>()
    })
}

/// gram-model-cases <cases.ndjson> <out.json>: every (token sequence, event list) computed by the grammar machine spec
/// (TLC, MCGrammar) against the real parser on the same oq3_parser::Input.
pub fn model_cases(args: &[String]) {
    use std::io::BufRead;
    let names = kinds_by_name();
    let fails: Mutex<Vec<Value>> = Mutex::new(vec![]);
    let kinds: Mutex<std::collections::BTreeSet<String>> = Mutex::new(Default::default());
    let fams: Mutex<std::collections::BTreeMap<String, u64>> = Mutex::new(Default::default());
    let mut ncases = 0usize;
    let f = std::fs::File::open(&args[0]).unwrap_or_else(|e| { eprintln!("cannot read {}: {e}", args[0]); std::process::exit(2) });
    let mut lines = std::io::BufReader::new(f).lines().map_while(Result::ok);
    loop {
        // the case files can hold millions of lines: process them in batches
        let batch: Vec<String> = lines.by_ref().take(100_000).collect();
        if batch.is_empty() { break; }
        ncases += batch.len();
    batch.par_iter().for_each(|line| {
        let c: Value = serde_json::from_str(line).expect("bad ndjson line");
        let c = &c;
        if let Some(fam) = c.get("fam").and_then(|f| f.as_str()) { *fams.lock().unwrap().entry(fam.to_string()).or_insert(0) += 1; }
        let toks: Vec<(String, bool)> = c["toks"].as_array().unwrap().iter().map(|t| (t["k"].as_str().unwrap().to_string(), t["j"].as_bool().unwrap())).collect();
        let push = |v: Value| { let mut f = fails.lock().unwrap(); if f.len() < 300 { f.push(v); } };
        match real_events(&names, &toks) {
            Err(p) => push(json!({"kind": "panic", "what": "the parser panicked on a token sequence", "toks": c["toks"], "panic": p, "site": p["func"], "model_bad": c["bad"]})),
            Ok(ev) => {
                {
                    let mut ks = kinds.lock().unwrap();
                    for e in &ev { if e["tag"] == "start" { ks.insert(e["kind"].as_str().unwrap().to_string()); } }
                }
                // C01's work bound, evaluated on the real event list
                if ev.len() > 64 * (toks.len() + 1) {
                    push(json!({"kind": "work", "what": "the parser produced more than 64 * (tokens + 1) events", "toks": c["toks"], "events": ev.len(), "site": ""}));
                }
                if c["bad"].as_str().unwrap_or("") != "" {
                    push(json!({"kind": "model_bad", "what": "the machine spec predicts that the parser does not return, but it did", "toks": c["toks"], "model_bad": c["bad"]}));
                } else if Value::Array(ev.clone()) != c["ev"] {
                    let me = c["ev"].as_array().unwrap();
                    let at = ev.iter().zip(me.iter()).position(|(a, b)| a != b).unwrap_or(ev.len().min(me.len()));
                    push(json!({"kind": "events_mismatch", "what": "raw parser events differ from the grammar machine spec", "toks": c["toks"], "at": at,
                        "model": me.get(at), "real": ev.get(at), "model_len": me.len(), "real_len": ev.len()}));
                }
            }
        }
    });
    }
    std::fs::write(&args[1], serde_json::to_string(&json!({"cases": ncases, "families": fams.into_inner().unwrap(), "node_kinds": kinds.into_inner().unwrap(), "failures": fails.into_inner().unwrap()})).unwrap()).unwrap();
}

/// gram-trace-record <seed> <corpus.json> <n_mut> <n_rand> <max_tokens> <out.ndjson>: parses of corpus / mutated / random texts by the REAL
/// parser as records {text, toks: [{k, j}], ev: [...]} for validation against the grammar machine spec (GrammarTrace.tla).
/// The token sequence is what LexedStr::to_input hands to the parser (non-trivia kinds, jointness).
pub fn record_model_traces(args: &[String]) {
    let seed: u64 = args[0].parse().unwrap();
    let corpus: Vec<String> = serde_json::from_str(&std::fs::read_to_string(&args[1]).unwrap()).unwrap();
    let n_mut: usize = args[2].parse().unwrap();
    let n_rand: usize = args[3].parse().unwrap();
    let max_tokens: usize = args[4].parse().unwrap();
    let inputs = crate::gen::robustness_inputs(seed, &corpus, n_mut, n_rand);
    let names = kinds_by_name();
    let mut out = NdjsonOut::create(&args[5]);
    let mut pieces: Vec<String> = vec![];
    for t in &inputs {
        // long texts are cut at statement boundaries so that every piece stays small enough for TLC
        let mut cur = String::new();
        for ch in t.chars() {
            cur.push(ch);
            if (ch == ';' || ch == '}' || ch == '\n') && cur.len() > 60 { pieces.push(std::mem::take(&mut cur)); }
        }
        if !cur.is_empty() { pieces.push(cur); }
    }
    let mut seen = std::collections::HashSet::new();
    let (mut n, mut panics) = (0usize, vec![]);
    for t in &pieces {
        if !seen.insert(t.clone()) { continue; }
        note_input(t);
        let toks = guarded(|| {
            let lexed = oq3_parser::LexedStr::new(t);
            let idx: Vec<usize> = (0..lexed.len()).filter(|&i| !lexed.kind(i).is_trivia()).collect();
            idx.iter().enumerate().map(|(k, &i)| {
                let joint = (k + 1 < idx.len() && idx[k + 1] == i + 1) || (lexed.kind(i) == SyntaxKind::FLOAT_NUMBER && !lexed.text(i).ends_with('.'));
                (format!("{:?}", lexed.kind(i)), joint)
            }).collect::<Vec<_>>()
        });
        let toks = match toks { Ok(t) => t, Err(p) => { panics.push(json!({"text": t, "panic": p})); continue; } };
        if toks.len() > max_tokens { continue; }
        match real_events(&names, &toks) {
            Ok(ev) => {
                out.put(&json!({"text": t, "toks": toks.iter().map(|(k, j)| json!({"k": k, "j": j})).collect::<Vec<_>>(), "ev": ev}));
                n += 1;
            }
            Err(p) => panics.push(json!({"text": t, "panic": p})),
        }
    }
    println!("{}", json!({"recorded": n, "panics": panics}));
}
