//! C10: literal spellings enumerated by TLC from Literals.tla, pushed through the analysis; the value
//! found in the semantic graph and the one returned by the AST accessors are compared with Canon.
use crate::lex::expand;
use crate::pipe::analyze_string;
use crate::util::*;
use oq3_syntax::ast::{self, AstNode};
use serde_json::{json, Value};

fn to_radix(mut v: u128, radix: u32) -> String {
    if v == 0 {
        return "0".into();
    }
    let mut ds = vec![];
    while v > 0 {
        ds.push(std::char::from_digit((v % radix as u128) as u32, radix).unwrap());
        v /= radix as u128;
    }
    ds.iter().rev().collect()
}

fn as_u128(v: &Value) -> Option<u128> {
    match v {
        Value::Number(n) => n.as_u64().map(|x| x as u128),
        Value::String(s) => s.parse::<u128>().ok(),
        _ => None,
    }
}

fn as_f64(v: &Value) -> Option<f64> {
    match v {
        Value::Number(n) => n.as_f64(),
        Value::String(s) => s.parse::<f64>().ok(),
        _ => None,
    }
}

/// trusted oracle: nearest double of the canonical text
fn oracle_f64(canon: &str) -> Option<f64> {
    let mut t = canon.to_string();
    if t.starts_with('.') {
        t.insert(0, '0');
    }
    // "1.e3" / "1." forms: make the fraction explicit
    if let Some(i) = t.find('.') {
        let next = t[i + 1..].chars().next();
        if next.is_none() || matches!(next, Some('e') | Some('E')) {
            t.insert(i + 1, '0');
        }
    }
    t.parse::<f64>().ok()
}

fn ast_values(text: &str) -> (Option<u128>, Option<f64>, Option<String>, Option<bool>) {
    let p = oq3_syntax::SourceFile::parse(text);
    let mut iv = None;
    let mut fv = None;
    let mut bv = None;
    let mut boolv = None;
    for node in p.syntax_node().descendants() {
        if let Some(l) = ast::Literal::cast(node) {
            match l.kind() {
                ast::LiteralKind::IntNumber(n) => iv = n.value_u128().or(iv),
                ast::LiteralKind::FloatNumber(f) => fv = f.value().or(fv),
                ast::LiteralKind::BitString(b) => bv = b.str().map(|s| s.to_string()).or(bv),
                ast::LiteralKind::Bool(b) => boolv = Some(b),
                _ => {}
            }
        }
    }
    (iv, fv, bv, boolv)
}

/// lit-cases <cases.ndjson> <out.json>
pub fn cases(args: &[String]) {
    let cases = read_ndjson(&args[0]);
    let mut fails: Vec<Value> = vec![];
    let mut n = 0u64;
    for c in &cases {
        n += 1;
        let cls = c["cls"].as_str().unwrap();
        let neg = c["neg"].as_bool().unwrap();
        let canon = c["canon"].as_str().unwrap();
        let radix = c["radix"].as_u64().unwrap() as u32;
        let suffix = c["suffix"].as_str().unwrap();
        let lit = expand(c["text"].as_str().unwrap());
        let text = format!("{}{};", if neg { "-" } else { "" }, lit);
        let obs = analyze_string(&text, None, true);
        let mut bad: Option<(String, Value)> = None;
        if let Some(p) = obs.get("panic") {
            bad = Some(("panic".into(), json!({"panic": p})));
        } else if obs["any_syntax_errors"] == json!(true) {
            bad = Some(("rejected".into(), json!({"errors": obs["files"]["errors"]})));
        } else {
            let e = &obs["stmts"][0]["0"]["expression"]["0"];
            let ty = &obs["stmts"][0]["0"]["ty"];
            let tag = e["_"].as_str().unwrap_or("");
            let inner = &e["0"];
            let got = json!({"literal": e, "type": ty});
            let (aiv, afv, abv, aboolv) = guarded(|| ast_values(&text)).unwrap_or((None, None, None, None));
            let mut ok = true;
            match cls {
                "int" | "imag_int" | "timing_int" => {
                    let want_tag = match cls { "int" => "Int", "imag_int" => "ImaginaryInt", _ => "TimingIntLiteral" };
                    ok &= tag == want_tag;
                    ok &= as_u128(&inner["value"]).map(|v| to_radix(v, radix) == canon).unwrap_or(false);
                    ok &= inner["sign"] == json!(!neg);
                    if cls == "timing_int" {
                        ok &= inner["time_unit"] == json!(suffix);
                    }
                    ok &= aiv.map(|v| to_radix(v, radix) == canon).unwrap_or(false);
                }
                "float" | "imag_float" | "timing_float" => {
                    let want_tag = match cls { "float" => "Float", "imag_float" => "ImaginaryFloat", _ => "TimingFloatLiteral" };
                    ok &= tag == want_tag;
                    let want = oracle_f64(canon).map(|x| if neg { -x } else { x });
                    let gotv = as_f64(&inner["value"]);
                    ok &= match (want, gotv) { (Some(a), Some(b)) => a.to_bits() == b.to_bits() || a == b, _ => false };
                    if cls == "timing_float" {
                        ok &= inner["time_unit"] == json!(suffix);
                    }
                    ok &= match (oracle_f64(canon), afv) { (Some(a), Some(b)) => a == b, _ => false };
                }
                "bits" => {
                    ok &= tag == "BitString";
                    ok &= inner["value"].as_str().map(|s| s.replace('_', "") == canon).unwrap_or(false);
                    ok &= ty["_"] == json!("BitArray") && ty["0"]["0"] == json!(c["width"].as_u64().unwrap());
                    ok &= abv.as_ref().map(|s| s.replace('_', "") == canon).unwrap_or(false);
                }
                // 2^128 and more: no value from the AST accessor and a diagnostic from the analysis (never another number)
                "int_overflow" => {
                    ok &= aiv.is_none();
                    ok &= obs["any_semantic_errors"] == json!(true);
                    ok &= !matches!(tag, "Int" | "ImaginaryInt") || inner["value"].is_null();
                }
                "bool" => {
                    ok &= tag == "Bool" && inner["value"] == json!(canon == "true");
                    ok &= aboolv == Some(canon == "true");
                }
                _ => ok = false,
            }
            if !ok {
                bad = Some(("value".into(), json!({"graph": got, "ast_int": aiv.map(|v| v.to_string()), "ast_float": afv, "ast_bits": abv})));
            }
        }
        if let Some((kind, detail)) = bad {
            if fails.len() < 300 {
                fails.push(json!({"kind": kind, "what": "literal value in the graph / AST accessor differs from the spelled value",
                    "text": text, "cls": cls, "canon": canon, "radix": radix, "neg": neg, "suffix": suffix, "detail": detail}));
            }
        }
    }
    std::fs::write(&args[1], serde_json::to_string(&json!({"cases": n, "failures": fails})).unwrap()).unwrap();
}
