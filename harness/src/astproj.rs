//! Projection of the typed AST (oq3_syntax::ast), THROUGH ITS TYPED ACCESSORS, to the abstract-syntax
//! JSON vocabulary of spec/grammar/RefGrammar.tla (C05): an accessor that returns the wrong
//! constituent shows up as a skeleton mismatch.
use oq3_syntax::ast::{self, AstNode, HasArgList, HasName, HasTextNode};
use oq3_syntax::BlockOrStmt;
use serde_json::{json, Value};

fn none() -> Value {
    json!({"k": "none"})
}
fn missing(what: &str) -> Value {
    json!({"k": "MISSING", "what": what})
}

fn binop_str(op: ast::BinaryOp) -> String {
    use ast::{ArithOp::*, BinaryOp::*, CmpOp, LogicOp, Ordering};
    match op {
        LogicOp(LogicOp::Or) => "||".into(),
        LogicOp(LogicOp::And) => "&&".into(),
        CmpOp(CmpOp::Eq { negated: false }) => "==".into(),
        CmpOp(CmpOp::Eq { negated: true }) => "!=".into(),
        CmpOp(CmpOp::Ord { ordering: Ordering::Less, strict: false }) => "<=".into(),
        CmpOp(CmpOp::Ord { ordering: Ordering::Greater, strict: false }) => ">=".into(),
        CmpOp(CmpOp::Ord { ordering: Ordering::Less, strict: true }) => "<".into(),
        CmpOp(CmpOp::Ord { ordering: Ordering::Greater, strict: true }) => ">".into(),
        ArithOp(Add) => "+".into(),
        ArithOp(Mul) => "*".into(),
        ArithOp(Sub) => "-".into(),
        ArithOp(Div) => "/".into(),
        ArithOp(Rem) => "%".into(),
        ArithOp(Shl) => "<<".into(),
        ArithOp(Shr) => ">>".into(),
        ArithOp(BitXor) => "^".into(),
        ArithOp(BitOr) => "|".into(),
        ArithOp(BitAnd) => "&".into(),
        Assignment { op: None } => "=".into(),
        Assignment { op: Some(a) } => format!("{}=", binop_str(ArithOp(a))),
        ConcatenationOp => "++".into(),
        PowerOp => "**".into(),
    }
}

pub fn ty(t: Option<ast::ScalarType>) -> Value {
    let t = match t {
        Some(t) => t,
        Option::None => return missing("scalar_type"),
    };
    use ast::ScalarTypeKind::*;
    let b = match t.kind() {
        Angle => "angle",
        Bit => "bit",
        Bool => "bool",
        Complex => "complex",
        Duration => "duration",
        Float => "float",
        Int => "int",
        Stretch => "stretch",
        UInt => "uint",
        Qubit => "qubit",
        None => "NONE",
    };
    let w = if let Some(inner) = t.scalar_type() {
        ty(Some(inner))
    } else if let Some(d) = t.designator() {
        d.expr().map(expr).unwrap_or(missing("designator expr"))
    } else {
        none()
    };
    json!({"k": "ty", "b": b, "w": w})
}

fn exprs(l: Option<ast::ExpressionList>) -> Value {
    match l {
        Some(l) => Value::Array(l.exprs().map(expr).collect()),
        None => json!([]),
    }
}

fn index_op(io: ast::IndexOperator) -> Value {
    match io.index_kind() {
        Some(ast::IndexKind::ExpressionList(l)) => exprs(Some(l)),
        Some(ast::IndexKind::SetExpression(s)) => json!([{"k": "set", "es": exprs(s.expression_list())}]),
        None => json!([]),
    }
}

pub fn gate_operand(g: ast::GateOperand) -> Value {
    match g {
        ast::GateOperand::Identifier(i) => json!({"k": "id", "n": i.string()}),
        ast::GateOperand::HardwareQubit(h) => json!({"k": "hwq", "n": h.string()}),
        ast::GateOperand::IndexedIdentifier(ii) => indexed(ii),
    }
}

fn indexed(ii: ast::IndexedIdentifier) -> Value {
    let n = ii.identifier().map(|i| i.string()).unwrap_or_default();
    let ops: Vec<Value> = ii.index_operators().map(index_op).collect();
    if ops.len() == 1 {
        json!({"k": "index", "n": n, "ix": ops[0]})
    } else {
        json!({"k": "index", "n": n, "ix": ops, "multi": true})
    }
}

pub fn expr(e: ast::Expr) -> Value {
    use ast::Expr::*;
    match e {
        BinExpr(b) => json!({"k": "bin", "op": b.op_kind().map(binop_str).unwrap_or("?".into()),
            "l": b.lhs().map(expr).unwrap_or(missing("lhs")), "r": b.rhs().map(expr).unwrap_or(missing("rhs"))}),
        PrefixExpr(p) => {
            let op = match p.op_kind() {
                Some(ast::UnaryOp::Neg) => "-",
                Some(ast::UnaryOp::Not) => "~",
                Some(ast::UnaryOp::LogicNot) => "!",
                None => "?",
            };
            json!({"k": "un", "op": op, "e": p.expr().map(expr).unwrap_or(missing("operand"))})
        }
        ParenExpr(p) => p.expr().map(expr).unwrap_or(missing("paren inner")),
        Identifier(i) => json!({"k": "id", "n": i.string()}),
        HardwareQubit(h) => json!({"k": "hwq", "n": h.string()}),
        Literal(l) => json!({"k": "lit", "t": l.token().text()}),
        TimingLiteral(t) => json!({"k": "tlit", "t": t.literal().map(|l| l.token().text().to_string()).unwrap_or_default(),
            "u": t.identifier().map(|i| i.string()).unwrap_or_default()}),
        CallExpr(c) => json!({"k": "call", "f": c.identifier().map(|i| i.string()).unwrap_or_default(),
            "args": exprs(c.arg_list().and_then(|a| a.expression_list()))}),
        IndexExpr(ix) => {
            let base = ix.expr().map(expr).unwrap_or(missing("index base"));
            let idx = ix.index_operator().map(index_op).unwrap_or(json!([]));
            match base.get("k").and_then(|k| k.as_str()) {
                Some("id") => json!({"k": "index", "n": base["n"], "ix": idx}),
                _ => json!({"k": "indexexpr", "base": base, "ix": idx}),
            }
        }
        IndexedIdentifier(ii) => indexed(ii),
        CastExpression(c) => json!({"k": "cast", "ty": ty(c.scalar_type()), "e": c.expr().map(expr).unwrap_or(missing("cast operand"))}),
        RangeExpr(r) => {
            let (a, s, b) = r.start_step_stop();
            json!({"k": "range", "a": a.map(expr).unwrap_or(missing("start")), "s": s.map(expr).unwrap_or(none()),
                "b": b.map(expr).unwrap_or(missing("stop"))})
        }
        MeasureExpression(m) => json!({"k": "measure", "q": m.gate_operand().map(gate_operand).unwrap_or(missing("operand"))}),
        ReturnExpr(r) => json!({"k": "return", "e": r.expr().map(expr).unwrap_or(none())}),
        GateCallExpr(g) => gate_call(g, vec![]),
        ModifiedGateCallExpr(m) => modified(m),
        GPhaseCallExpr(g) => json!({"k": "gphase", "mods": [], "arg": g.arg().map(expr).unwrap_or(missing("arg"))}),
        BlockExpr(b) => json!({"k": "blockexpr", "stmts": stmts(b.statements())}),
        other => json!({"k": "OTHER", "dbg": format!("{:?}", other.syntax().kind())}),
    }
}

fn gate_call(g: ast::GateCallExpr, mods: Vec<Value>) -> Value {
    json!({"k": "gatecall", "mods": mods, "n": g.identifier().map(|i| i.string()).unwrap_or_default(),
        "params": exprs(g.arg_list().and_then(|a| a.expression_list())),
        "qs": g.qubit_list().map(|q| q.gate_operands().map(gate_operand).collect::<Vec<_>>()).unwrap_or_default()})
}

fn modified(m: ast::ModifiedGateCallExpr) -> Value {
    let mods: Vec<Value> = m
        .modifiers()
        .map(|md| match md {
            ast::Modifier::InvModifier(_) => json!({"m": "inv", "arg": none()}),
            ast::Modifier::PowModifier(p) => json!({"m": "pow", "arg": p.paren_expr().and_then(|x| x.expr()).map(expr).unwrap_or(none())}),
            ast::Modifier::CtrlModifier(p) => json!({"m": "ctrl", "arg": p.paren_expr().and_then(|x| x.expr()).map(expr).unwrap_or(none())}),
            ast::Modifier::NegCtrlModifier(p) => json!({"m": "negctrl", "arg": p.paren_expr().and_then(|x| x.expr()).map(expr).unwrap_or(none())}),
        })
        .collect();
    if let Some(g) = m.gate_call_expr() {
        gate_call(g, mods)
    } else if let Some(g) = m.g_phase_call_expr() {
        json!({"k": "gphase", "mods": mods, "arg": g.arg().map(expr).unwrap_or(missing("arg"))})
    } else {
        missing("modified gate call target")
    }
}

fn body(b: BlockOrStmt) -> Value {
    match b {
        BlockOrStmt::BlockExpr(b) => json!({"k": "body", "block": true, "stmts": stmts(b.statements())}),
        BlockOrStmt::Stmt(s) => json!({"k": "body", "block": false, "stmts": [stmt(s)]}),
    }
}

pub fn stmts(it: impl Iterator<Item = ast::Stmt>) -> Value {
    Value::Array(it.map(stmt).collect())
}

pub fn stmt(s: ast::Stmt) -> Value {
    use ast::Stmt::*;
    match s {
        ClassicalDeclarationStatement(d) => json!({"k": "decl", "const": d.const_token().is_some(), "ty": ty(d.scalar_type()),
            "n": d.name().map(|n| n.string()).unwrap_or_default(), "init": d.expr().map(expr).unwrap_or(none())}),
        QuantumDeclarationStatement(q) => json!({"k": "qdecl", "n": q.name().map(|n| n.string()).unwrap_or_default(),
            "size": q.qubit_type().and_then(|t| t.designator()).and_then(|d| d.expr()).map(expr).unwrap_or(none())}),
        IODeclarationStatement(d) => json!({"k": "io", "dir": if d.input_token().is_some() {"input"} else {"output"}, "ty": ty(d.scalar_type()),
            "n": d.name().map(|n| n.string()).unwrap_or_default()}),
        AssignmentStmt(a) => {
            let lhs = if let Some(id) = a.identifier() { json!({"k": "id", "n": id.string()}) }
                      else if let Some(ii) = a.indexed_identifier() { indexed(ii) } else { missing("assignment lhs") };
            json!({"k": "assign", "lhs": lhs, "op": "=", "rhs": a.rhs().map(expr).unwrap_or(missing("rhs"))})
        }
        AliasDeclarationStatement(a) => json!({"k": "alias", "n": a.name().map(|n| n.string()).unwrap_or_default(), "rhs": a.expr().map(expr).unwrap_or(missing("rhs"))}),
        LetStmt(a) => json!({"k": "letstmt", "n": a.name().map(|n| n.string()).unwrap_or_default(), "rhs": a.expr().map(expr).unwrap_or(missing("rhs"))}),
        Reset(r) => json!({"k": "reset", "q": r.gate_operand().map(gate_operand).unwrap_or(missing("operand"))}),
        Barrier(b) => json!({"k": "barrier", "qs": b.qubit_list().map(|q| q.gate_operands().map(gate_operand).collect::<Vec<_>>()).unwrap_or_default()}),
        DelayStmt(d) => json!({"k": "delay", "d": d.designator().and_then(|x| x.expr()).map(expr).unwrap_or(missing("duration")),
            "qs": d.qubit_list().map(|q| q.gate_operands().map(gate_operand).collect::<Vec<_>>()).unwrap_or_default()}),
        IfStmt(i) => json!({"k": "if", "c": i.condition().map(expr).unwrap_or(missing("condition")),
            "t": body(i.true_body_block_or_stmt()), "e": i.false_body_block_or_stmt().map(body).unwrap_or(none())}),
        WhileStmt(w) => json!({"k": "while", "c": w.condition().map(expr).unwrap_or(missing("condition")), "b": body(w.block_or_stmt())}),
        ForStmt(f) => {
            let it = match f.for_iterable() {
                Some(fi) => {
                    if let Some(s) = fi.set_expression() { json!({"k": "set", "es": exprs(s.expression_list())}) }
                    else if let Some(r) = fi.range_expr() { expr(ast::Expr::RangeExpr(r)) }
                    else if let Some(e) = fi.for_iterable_expr() { expr(e) } else { missing("iterable") }
                }
                None => missing("for_iterable"),
            };
            json!({"k": "for", "ty": ty(f.scalar_type()), "v": f.loop_var().map(|n| n.string()).unwrap_or_default(), "it": it, "b": body(f.block_or_stmt())})
        }
        SwitchCaseStmt(s) => json!({"k": "switch", "c": s.control().map(expr).unwrap_or(missing("control")),
            "cases": s.case_exprs().map(|c| json!({"vals": exprs(c.expression_list()),
                "stmts": c.block_expr().map(|b| stmts(b.statements())).unwrap_or(missing("case block"))})).collect::<Vec<_>>(),
            "d": s.default_block().map(|b| json!({"stmts": stmts(b.statements())})).unwrap_or(none())}),
        BreakStmt(_) => json!({"k": "break"}),
        ContinueStmt(_) => json!({"k": "continue"}),
        EndStmt(_) => json!({"k": "end"}),
        Gate(g) => json!({"k": "gate", "n": g.name().map(|n| n.string()).unwrap_or_default(),
            "ps": g.angle_params().map(|p| p.params().map(|x| json!(x.string())).collect::<Vec<_>>()).unwrap_or_default(),
            "qs": g.qubit_params().map(|p| p.params().map(|x| json!(x.string())).collect::<Vec<_>>()).unwrap_or_default(),
            "stmts": g.body().map(|b| stmts(b.statements())).unwrap_or(missing("gate body"))}),
        Def(d) => json!({"k": "def", "n": d.name().map(|n| n.string()).unwrap_or_default(),
            "ps": d.typed_param_list().map(|l| l.typed_params().map(|p| {
                let t = match p.param_type() { Some(ast::ParamType::ScalarType(st)) => ty(Some(st)), Some(_) => json!({"k": "arrayref"}), None => missing("param type") };
                json!({"ty": t, "n": p.name().map(|n| n.string()).unwrap_or_default()})}).collect::<Vec<_>>()).unwrap_or_default(),
            "ret": d.return_signature().map(|r| ty(r.scalar_type())).unwrap_or(none()),
            "stmts": d.body().map(|b| stmts(b.statements())).unwrap_or(missing("def body"))}),
        PragmaStatement(p) => json!({"k": "pragma", "t": p.pragma_text().trim().to_string()}),
        AnnotationStatement(a) => json!({"k": "annot", "t": a.annotation_text().trim_start_matches('@').trim().to_string()}),
        Include(i) => json!({"k": "include", "f": i.file().and_then(|f| f.to_string()).unwrap_or_default()}),
        ExprStmt(e) => match e.expr() {
            Some(x @ (ast::Expr::GateCallExpr(_) | ast::Expr::ModifiedGateCallExpr(_) | ast::Expr::GPhaseCallExpr(_))) => expr(x),
            Some(ast::Expr::ReturnExpr(r)) => json!({"k": "return", "e": r.expr().map(expr).unwrap_or(none())}),
            Some(ast::Expr::BinExpr(b)) if matches!(b.op_kind(), Some(ast::BinaryOp::Assignment { op: Some(_) })) => {
                // compound assignment: a binary expression with an assignment operator
                json!({"k": "assign", "lhs": b.lhs().map(expr).unwrap_or(missing("lhs")), "op": b.op_kind().map(binop_str).unwrap_or_default(),
                    "rhs": b.rhs().map(expr).unwrap_or(missing("rhs"))})
            }
            Some(x) => json!({"k": "exprstmt", "e": expr(x)}),
            None => missing("expr stmt expr"),
        },
        other => json!({"k": "OTHERSTMT", "dbg": format!("{:?}", other.syntax().kind())}),
    }
}

pub fn program(text: &str) -> (Value, Vec<String>, Vec<(String, String)>) {
    let p = oq3_syntax::SourceFile::parse(text);
    let errs: Vec<String> = p.errors().iter().map(|e| format!("{} @{:?}", e, e.range())).collect();
    let tree = p.tree();
    let kinds_texts: Vec<(String, String)> = tree.statements().map(|s| (format!("{:?}", s.syntax().kind()), s.syntax().text().to_string())).collect();
    (stmts(tree.statements()), errs, kinds_texts)
}
