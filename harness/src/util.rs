//! Common helpers: panic capture (panics are data), JSON line I/O.
use serde_json::{json, Value};
use std::cell::RefCell;
use std::io::{BufRead, Write};
use std::panic::{self, AssertUnwindSafe};
use std::sync::Once;

thread_local! {
    static LAST_PANIC: RefCell<Option<Value>> = const { RefCell::new(None) };
    static CAPTURING: RefCell<bool> = const { RefCell::new(false) };
}

static HOOK: Once = Once::new();

fn install_hook() {
    HOOK.call_once(|| {
        let default = panic::take_hook();
        panic::set_hook(Box::new(move |info| {
            let capturing = CAPTURING.with(|c| *c.borrow());
            if !capturing {
                default(info);
                return;
            }
            let msg = if let Some(s) = info.payload().downcast_ref::<&str>() {
                s.to_string()
            } else if let Some(s) = info.payload().downcast_ref::<String>() {
                s.clone()
            } else {
                "<non-string panic>".to_string()
            };
            let (file, line) = info
                .location()
                .map(|l| (l.file().to_string(), l.line()))
                .unwrap_or(("?".into(), 0));
            // enclosing oq3_* functions from a backtrace
            let bt = std::backtrace::Backtrace::force_capture().to_string();
            let mut funcs: Vec<String> = Vec::new();
            for l in bt.lines() {
                let l = l.trim();
                if let Some(idx) = l.find(": ") {
                    let f = &l[idx + 2..];
                    if f.starts_with("oq3_") && !f.contains("verif") {
                        let f = f.split("::{{closure}}").next().unwrap_or(f).to_string();
                        if funcs.last() != Some(&f) {
                            funcs.push(f);
                        }
                        if funcs.len() >= 4 {
                            break;
                        }
                    }
                }
            }
            // crate-relative file
            let rel = match file.find("crates/") {
                Some(i) => file[i..].to_string(),
                None => file.clone(),
            };
            let mut m = msg.clone();
            if m.len() > 120 {
                let mut e = 120;
                while !m.is_char_boundary(e) {
                    e -= 1;
                }
                m.truncate(e);
            }
            LAST_PANIC.with(|p| {
                *p.borrow_mut() = Some(json!({
                    "file": rel, "line": line, "msg": m,
                    "func": funcs.first().cloned().unwrap_or_default(),
                    "stack": funcs,
                }))
            });
        }));
    });
}

// ---- watchdog: code under test that does not return (a hang is data, like a panic, but it cannot be caught: the harness
// writes what it was running to $OQ3V_HANG_FILE and exits with status 3; the check scripts turn that into a violation).
// Registration must be cheap (guarded() runs ~1e8 times in the exhaustive families): one slot per thread, an atomic start
// time and an uncontended mutex for the input text.
struct Slot {
    start_ms: std::sync::atomic::AtomicU64, // 0 = idle; otherwise ms since process start + 1
    ctx: std::sync::Mutex<String>,
}
static SLOTS: std::sync::OnceLock<Vec<Slot>> = std::sync::OnceLock::new();
static NEXT_SLOT: std::sync::atomic::AtomicUsize = std::sync::atomic::AtomicUsize::new(0);
static T0: std::sync::OnceLock<std::time::Instant> = std::sync::OnceLock::new();
static WATCHDOG: Once = Once::new();
thread_local! {
    static MY_SLOT: std::cell::Cell<usize> = const { std::cell::Cell::new(usize::MAX) };
    static CALLS: std::cell::Cell<u64> = const { std::cell::Cell::new(0) };
}
fn slots() -> &'static Vec<Slot> {
    SLOTS.get_or_init(|| (0..512).map(|_| Slot { start_ms: std::sync::atomic::AtomicU64::new(0), ctx: std::sync::Mutex::new(String::new()) }).collect())
}
fn my_slot() -> &'static Slot {
    let i = MY_SLOT.with(|c| {
        if c.get() == usize::MAX {
            c.set(NEXT_SLOT.fetch_add(1, std::sync::atomic::Ordering::Relaxed) % 512);
        }
        c.get()
    });
    &slots()[i]
}
fn now_ms() -> u64 {
    T0.get_or_init(std::time::Instant::now).elapsed().as_millis() as u64 + 1
}

/// Remember the input the next `guarded` calls on this thread work on (reported if one of them never returns).
pub fn note_input(text: &str) {
    let mut c = my_slot().ctx.lock().unwrap();
    c.clear();
    if text.len() <= 2000 { c.push_str(text) } else { c.extend(text.chars().take(2000)) }
}

fn start_watchdog() {
    WATCHDOG.call_once(|| {
        let limit_s: u64 = std::env::var("OQ3V_HANG_SECS").ok().and_then(|s| s.parse().ok()).unwrap_or(30u64);
        let _ = now_ms();
        std::thread::spawn(move || {
            // Time is counted in the watchdog's own ticks, not on the wall clock: if the whole process (or machine) is frozen for a
            // while - a sandbox snapshot did that once and produced a false alarm - the watchdog does not tick either.  A call is
            // reported when the SAME call (same start stamp) has been seen running for limit_s * 4 consecutive ticks of >= 250 ms.
            let need = (limit_s * 4) as u32;
            let mut seen: Vec<(u64, u32)> = vec![(0, 0); slots().len()];
            loop {
                std::thread::sleep(std::time::Duration::from_millis(250));
                for (i, s) in slots().iter().enumerate() {
                    let st = s.start_ms.load(std::sync::atomic::Ordering::Relaxed);
                    if st != 0 && st == seen[i].0 { seen[i].1 += 1; } else { seen[i] = (st, 0); }
                    if st != 0 && seen[i].1 >= need {
                        let ctx = s.ctx.lock().map(|c| c.clone()).unwrap_or_default();
                        let path = std::env::var("OQ3V_HANG_FILE").unwrap_or_else(|_| "oq3v_hang.json".into());
                        let _ = std::fs::write(&path, serde_json::to_string(&json!({"hang": true, "secs": limit_s, "input": ctx})).unwrap());
                        eprintln!("oq3v: the code under test did not return within {limit_s}s; input written to {path}");
                        std::process::exit(3);
                    }
                }
            }
        });
    });
}

/// Run `f`; Ok(result) or Err(panic description as JSON).
pub fn guarded<T>(f: impl FnOnce() -> T) -> Result<T, Value> {
    install_hook();
    start_watchdog();
    let slot = my_slot();
    // the stamp identifies this call: time in the high bits, a per-thread call counter in the low 20 bits
    let stamp = (now_ms() << 20) | (CALLS.with(|c| { let v = c.get().wrapping_add(1); c.set(v); v }) & 0xFFFFF);
    slot.start_ms.store(stamp, std::sync::atomic::Ordering::Relaxed);
    struct Done(&'static Slot);
    impl Drop for Done {
        fn drop(&mut self) {
            self.0.start_ms.store(0, std::sync::atomic::Ordering::Relaxed);
        }
    }
    let _done = Done(slot);
    CAPTURING.with(|c| *c.borrow_mut() = true);
    LAST_PANIC.with(|p| *p.borrow_mut() = None);
    let r = panic::catch_unwind(AssertUnwindSafe(f));
    CAPTURING.with(|c| *c.borrow_mut() = false);
    match r {
        Ok(v) => Ok(v),
        Err(_) => Err(LAST_PANIC
            .with(|p| p.borrow_mut().take())
            .unwrap_or(json!({"file":"?","line":0,"msg":"?","func":"","stack":[]}))),
    }
}

pub fn read_json_file(path: &str) -> Value {
    let s = std::fs::read_to_string(path).unwrap_or_else(|e| {
        eprintln!("cannot read {path}: {e}");
        std::process::exit(2)
    });
    serde_json::from_str(&s).unwrap_or_else(|e| {
        eprintln!("bad json in {path}: {e}");
        std::process::exit(2)
    })
}

pub fn read_ndjson(path: &str) -> Vec<Value> {
    let f = std::fs::File::open(path).unwrap_or_else(|e| {
        eprintln!("cannot read {path}: {e}");
        std::process::exit(2)
    });
    std::io::BufReader::new(f)
        .lines()
        .map_while(Result::ok)
        .filter(|l| !l.trim().is_empty())
        .map(|l| serde_json::from_str(&l).expect("bad ndjson line"))
        .collect()
}

pub struct NdjsonOut {
    w: std::io::BufWriter<std::fs::File>,
}
impl NdjsonOut {
    pub fn create(path: &str) -> Self {
        NdjsonOut {
            w: std::io::BufWriter::new(std::fs::File::create(path).expect("create out")),
        }
    }
    pub fn put(&mut self, v: &Value) {
        serde_json::to_writer(&mut self.w, v).unwrap();
        self.w.write_all(b"\n").unwrap();
    }
}

/// Simple deterministic RNG wrapper
pub fn rng(seed: u64) -> rand::rngs::StdRng {
    use rand::SeedableRng;
    rand::rngs::StdRng::seed_from_u64(seed)
}

/// JSON equality that identifies TLC's renderings of empty functions/sequences ([] vs {}) and ints.
pub fn json_eq_loose(a: &Value, b: &Value) -> bool {
    // TLC prints empty functions/sequences as [] ; objects vs arrays of emptiness are the same
    match (a, b) {
        (Value::Object(x), Value::Array(y)) | (Value::Array(y), Value::Object(x)) => x.is_empty() && y.is_empty(),
        (Value::Object(x), Value::Object(y)) => {
            x.len() == y.len() && x.iter().all(|(k, v)| y.get(k).map(|w| json_eq_loose(v, w)).unwrap_or(false))
        }
        (Value::Array(x), Value::Array(y)) => x.len() == y.len() && x.iter().zip(y).all(|(v, w)| json_eq_loose(v, w)),
        (Value::Number(x), Value::Number(y)) => x.as_i64() == y.as_i64(),
        _ => a == b,
    }
}

