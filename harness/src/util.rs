//! Common helpers: panic capture (panics are data), JSON line I/O.
use serde_json::{json, Value};
use std::cell::RefCell;
use std::io::{BufRead, Write};
use std::panic::{self, AssertUnwindSafe};
use std::sync::Once;

thread_local! {
    static LAST_PANIC: RefCell<Option<Value>> = const { RefCell::new(None) };
    static CAPTURING: RefCell<bool> = const { RefCell::new(false) };
}

static HOOK: Once = Once::new();

fn install_hook() {
    HOOK.call_once(|| {
        let default = panic::take_hook();
        panic::set_hook(Box::new(move |info| {
            let capturing = CAPTURING.with(|c| *c.borrow());
            if !capturing {
                default(info);
                return;
            }
            let msg = if let Some(s) = info.payload().downcast_ref::<&str>() {
                s.to_string()
            } else if let Some(s) = info.payload().downcast_ref::<String>() {
                s.clone()
            } else {
                "<non-string panic>".to_string()
            };
            let (file, line) = info
                .location()
                .map(|l| (l.file().to_string(), l.line()))
                .unwrap_or(("?".into(), 0));
            // enclosing oq3_* functions from a backtrace
            let bt = std::backtrace::Backtrace::force_capture().to_string();
            let mut funcs: Vec<String> = Vec::new();
            for l in bt.lines() {
                let l = l.trim();
                if let Some(idx) = l.find(": ") {
                    let f = &l[idx + 2..];
                    if f.starts_with("oq3_") && !f.contains("verif") {
                        let f = f.split("::{{closure}}").next().unwrap_or(f).to_string();
                        if funcs.last() != Some(&f) {
                            funcs.push(f);
                        }
                        if funcs.len() >= 4 {
                            break;
                        }
                    }
                }
            }
            // crate-relative file
            let rel = match file.find("crates/") {
                Some(i) => file[i..].to_string(),
                None => file.clone(),
            };
            let mut m = msg.clone();
            if m.len() > 120 {
                let mut e = 120;
                while !m.is_char_boundary(e) {
                    e -= 1;
                }
                m.truncate(e);
            }
            LAST_PANIC.with(|p| {
                *p.borrow_mut() = Some(json!({
                    "file": rel, "line": line, "msg": m,
                    "func": funcs.first().cloned().unwrap_or_default(),
                    "stack": funcs,
                }))
            });
        }));
    });
}

// ---- watchdog: code under test that does not return (a hang is data, like a panic, but it cannot be caught: the harness
// writes what it was running to $OQ3V_HANG_FILE and exits with status 3; the check scripts turn that into a violation)
thread_local! {
    static CTX: RefCell<String> = const { RefCell::new(String::new()) };
}
static RUNNING: std::sync::Mutex<Option<std::collections::HashMap<std::thread::ThreadId, (std::time::Instant, String)>>> = std::sync::Mutex::new(None);
static WATCHDOG: Once = Once::new();

/// Remember the input the next `guarded` calls on this thread work on (reported if one of them never returns).
pub fn note_input(text: &str) {
    CTX.with(|c| {
        let mut c = c.borrow_mut();
        c.clear();
        c.push_str(&text.chars().take(2000).collect::<String>());
    });
}

fn start_watchdog() {
    WATCHDOG.call_once(|| {
        let limit: u64 = std::env::var("OQ3V_HANG_SECS").ok().and_then(|s| s.parse().ok()).unwrap_or(30);
        std::thread::spawn(move || loop {
            std::thread::sleep(std::time::Duration::from_millis(250));
            let hung = {
                let g = RUNNING.lock().unwrap();
                g.as_ref().and_then(|m| m.values().find(|(t, _)| t.elapsed().as_secs() >= limit).map(|(t, c)| (t.elapsed().as_secs(), c.clone())))
            };
            if let Some((secs, ctx)) = hung {
                let path = std::env::var("OQ3V_HANG_FILE").unwrap_or_else(|_| "oq3v_hang.json".into());
                let _ = std::fs::write(&path, serde_json::to_string(&json!({"hang": true, "secs": secs, "input": ctx})).unwrap());
                eprintln!("oq3v: the code under test did not return within {secs}s; input written to {path}");
                std::process::exit(3);
            }
        });
    });
}

/// Run `f`; Ok(result) or Err(panic description as JSON).
pub fn guarded<T>(f: impl FnOnce() -> T) -> Result<T, Value> {
    install_hook();
    start_watchdog();
    let tid = std::thread::current().id();
    {
        let ctx = CTX.with(|c| c.borrow().clone());
        let mut g = RUNNING.lock().unwrap();
        g.get_or_insert_with(Default::default).insert(tid, (std::time::Instant::now(), ctx));
    }
    struct Done(std::thread::ThreadId);
    impl Drop for Done {
        fn drop(&mut self) {
            if let Ok(mut g) = RUNNING.lock() {
                if let Some(m) = g.as_mut() { m.remove(&self.0); }
            }
        }
    }
    let _done = Done(tid);
    CAPTURING.with(|c| *c.borrow_mut() = true);
    LAST_PANIC.with(|p| *p.borrow_mut() = None);
    let r = panic::catch_unwind(AssertUnwindSafe(f));
    CAPTURING.with(|c| *c.borrow_mut() = false);
    match r {
        Ok(v) => Ok(v),
        Err(_) => Err(LAST_PANIC
            .with(|p| p.borrow_mut().take())
            .unwrap_or(json!({"file":"?","line":0,"msg":"?","func":"","stack":[]}))),
    }
}

pub fn read_json_file(path: &str) -> Value {
    let s = std::fs::read_to_string(path).unwrap_or_else(|e| {
        eprintln!("cannot read {path}: {e}");
        std::process::exit(2)
    });
    serde_json::from_str(&s).unwrap_or_else(|e| {
        eprintln!("bad json in {path}: {e}");
        std::process::exit(2)
    })
}

pub fn read_ndjson(path: &str) -> Vec<Value> {
    let f = std::fs::File::open(path).unwrap_or_else(|e| {
        eprintln!("cannot read {path}: {e}");
        std::process::exit(2)
    });
    std::io::BufReader::new(f)
        .lines()
        .map_while(Result::ok)
        .filter(|l| !l.trim().is_empty())
        .map(|l| serde_json::from_str(&l).expect("bad ndjson line"))
        .collect()
}

pub struct NdjsonOut {
    w: std::io::BufWriter<std::fs::File>,
}
impl NdjsonOut {
    pub fn create(path: &str) -> Self {
        NdjsonOut {
            w: std::io::BufWriter::new(std::fs::File::create(path).expect("create out")),
        }
    }
    pub fn put(&mut self, v: &Value) {
        serde_json::to_writer(&mut self.w, v).unwrap();
        self.w.write_all(b"\n").unwrap();
    }
}

/// Simple deterministic RNG wrapper
pub fn rng(seed: u64) -> rand::rngs::StdRng {
    use rand::SeedableRng;
    rand::rngs::StdRng::seed_from_u64(seed)
}

/// JSON equality that identifies TLC's renderings of empty functions/sequences ([] vs {}) and ints.
pub fn json_eq_loose(a: &Value, b: &Value) -> bool {
    // TLC prints empty functions/sequences as [] ; objects vs arrays of emptiness are the same
    match (a, b) {
        (Value::Object(x), Value::Array(y)) | (Value::Array(y), Value::Object(x)) => x.is_empty() && y.is_empty(),
        (Value::Object(x), Value::Object(y)) => {
            x.len() == y.len() && x.iter().all(|(k, v)| y.get(k).map(|w| json_eq_loose(v, w)).unwrap_or(false))
        }
        (Value::Array(x), Value::Array(y)) => x.len() == y.len() && x.iter().zip(y).all(|(v, w)| json_eq_loose(v, w)),
        (Value::Number(x), Value::Number(y)) => x.as_i64() == y.as_i64(),
        _ => a == b,
    }
}

