//! oq3v: conformance harness binding the TLA+ specifications under /verif/spec to the real
//! openqasm3_parser crates.  It renders, drives, projects and compares; expected values and
//! allowed sets come from TLC.
mod anz;
mod astproj;
mod dbg;
mod decl;
mod events;
mod gating;
mod gen;
mod gram;
mod inc;
mod lex;
mod lit;
mod parse;
mod pipe;
mod symtab;
mod tyrows;
mod types;
mod util;

fn main() {
    let args: Vec<String> = std::env::args().skip(1).collect();
    if args.is_empty() {
        eprintln!("usage: oq3v <subcommand> ...");
        std::process::exit(2);
    }
    let rest = &args[1..];
    match args[0].as_str() {
        "symtab-walk" => symtab::walk(rest),
        "symtab-record" => symtab::record(rest),
        "anz-symtrace" => symtab::record_analysis(rest),
        "types-table" => types::table(rest),
        "probe" => pipe::probe(rest),
        "gating-cases" => gating::cases(rest),
        "lit-cases" => lit::cases(rest),
        "parse-record" => parse::record(rest),
        "parse-tokens" => parse::tokens(rest),
        "check-text" => parse::check_one(rest),
        "events" => parse::dump_events(rest),
        // self-test of the watchdog: a guarded call that never returns must end the process with status 3
        "selftest-hang" => { util::note_input("selftest"); let _ = util::guarded(|| { let mut x = 0u64; loop { x = x.wrapping_add(1); std::hint::black_box(x); } }); }
        "gram-cases" => gram::cases(rest),
        "gram-model-cases" => parse::model_cases(rest),
        "gram-trace-record" => parse::record_model_traces(rest),
        "seq-cases" => gram::seq_cases(rest),
        "anz-cases" => anz::cases(rest),
        "inc-cases" => inc::cases(rest),
        "decl-cases" => decl::cases(rest),
        "relayout-cases" => decl::relayout(rest),
        "ty-rows" => tyrows::rows(rest),
        "events-cases" => events::cases(rest),
        "evtrace-record" => events::record_traces(rest),
        "lex-cases" => lex::cases(rest),
        "lex-exhaustive" => lex::exhaustive(rest),
        "lex-record" => lex::record(rest),
        "lexm-record" => lex::record_model(rest),
        "lexm-cases" => lex::model_cases(rest),
        other => {
            eprintln!("unknown subcommand {other}");
            std::process::exit(2);
        }
    }
}
