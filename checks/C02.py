#!/usr/bin/env python3
"""C02 - the syntax tree is lossless: leaves spell the input, children tile their parent, root spans [0,len).

Both public parse entry points are driven over (i) every token sequence up to a length over the full
91-kind token alphabet, as oq3_parser::Input (all jointness patterns) and rendered to text, (ii) the
robustness corpus (repository texts, mutations, random UTF-8, token soup, deep nesting).  Hooks turn a
non-terminating grammar loop into an attributable panic.  A stride sample of the recorded parse
observations (tree rows, diagnostics) is validated by TLC against TreeTrace.tla / TreeShape.tla.
"""
import os, sys
sys.path.insert(0, os.path.dirname(os.path.abspath(__file__)))
from parsecommon import *


def main():
    c = Check("C02")
    c.level = "model_checking"
    c.assumptions += ["bounds (DESIGN 5/C01): random inputs <= 4 KiB, nesting <= 64, token sequences <= 5 (thorough) / <= 4 (quick) as Input, <= 4 / <= 3 as text",
                      "rowan and the Unicode tables are trusted", "linear work is measured as parser events <= 64 * (tokens + 1)"]
    run(c, {"C02"})
    c.finish()


if __name__ == "__main__":
    main_guard(main)
