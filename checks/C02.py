#!/usr/bin/env python3
"""C02 - the syntax tree is lossless: leaves spell the input, children tile their parent, root spans [0,len).

Both public parse entry points are driven over (i) every token sequence up to a length over the full
91-kind token alphabet, as oq3_parser::Input (all jointness patterns) and rendered to text, (ii) the
robustness corpus (repository texts, mutations, random UTF-8, token soup, deep nesting).  Hooks turn a
non-terminating grammar loop into an attributable panic.  A stride sample of the recorded parse
observations (tree rows, diagnostics) is validated by TLC against TreeTrace.tla / TreeShape.tla.

Protocol level (machine spec Events.tla): TLC explores every disciplined Marker-API call sequence up to a
bound over every trivia layout, proves on the model that event::process + intersperse_trivia deliver a
balanced, lossless step sequence to the builder (TreeShapeHolds, BuilderNeverOverruns, Balanced), and
exports every finished behaviour; the harness executes each on the REAL Parser / Marker / process /
LexedStr::intersperse_trivia (hook oq3_parser::verif::drive) and compares the delivered steps (B1).
"""
import os, sys
sys.path.insert(0, os.path.dirname(os.path.abspath(__file__)))
from parsecommon import *


def events_protocol(c):
    cfg = "MCEvents.cfg" if c.quick else "MCEvents_big.cfg"
    r = run_tlc("events", "MCEvents", cfg, workers=8, timeout=3000, cache_key="v1", keep_tags=["CASE"], xmx="16g")
    if not r.ok:
        c.tool_error(f"MCEvents {cfg}: {r.violated or r.error_text} {r.raw_tail[-600:]}")
    cases = r.tagged.get("CASE", [])
    cf = os.path.join(c.work, "evcases.ndjson"); of = os.path.join(c.work, "evcases_out.json")
    with open(cf, "w") as fh:
        for x in cases:
            fh.write(json.dumps(x) + "\n")
    p = run_harness(["events-cases", cf, of], timeout=3000)
    if p.returncode != 0:
        c.tool_error("events-cases failed: " + p.stderr[-1500:])
    d = json.load(open(of))
    nd = 0
    for f in d["failures"]:
        if f["kind"] == "drift":
            nd += 1
            if len(c.drift) < 3:
                c.drift.append({"calls": f["calls"], "text": f["text"], "expected": f["expected"], "observed": f["observed"]})
        else:
            c.report({"kind": "protocol_" + f["kind"], "what": f["what"], "text": f["text"], "calls": f["calls"], "site": f.get("site") or "",
                      "panic": f.get("panic"), "observed": f.get("observed"), "expected": f.get("expected")})
    if nd:
        c.notes.append(f"model drift: {nd} Marker-API behaviours deliver other (still lossless) steps than Events.tla predicts")
    # B3: the calls the REAL grammar makes while parsing corpus / mutated / random texts, validated against the protocol spec
    cp = os.path.join(c.work, "corpus.json")
    json.dump(corpus_mod.collect(), open(cp, "w"))
    ev = os.path.join(c.work, "evtrace.ndjson")
    nm, nr = (12, 12) if c.quick else (40, 40)
    p = run_harness(["evtrace-record", c.seed, cp, nm, nr, 60, ev], timeout=3000)
    if p.returncode != 0:
        c.tool_error("evtrace-record failed: " + p.stderr[-1500:])
    rec = json.loads(p.stdout.strip().split("\n")[-1])
    for pn in rec["panics"][:3]:
        c.report({"kind": "panic", "what": "parse panicked while its Marker-API calls were recorded", "text": pn["text"], "panic": pn["panic"], "site": (pn["panic"] or {}).get("func", "")})
    tr = run_tlc("events", "EventsTrace", "EventsTrace.cfg", workers=1, timeout=3000, dfs=True, xss="1g", env={"TRACE": ev})
    rej = tr.tagged.get("REJECT")
    if rej:
        rj = rej[0]; e = rj["rec"]
        lines = open(ev).read().split("\n")
        text = None
        for k in range(rj["line"] - 1, -1, -1):
            x = json.loads(lines[k])
            if x["ev"] == "begin":
                text = x["text"]; break
        bad_native = False
        if e.get("ev") == "end":
            flat = [i for x in e["sink"] if x["s"] == "token" for i in x["raw"]]
            depth = 0; shape = True
            for x in e["sink"]:
                if x["s"] == "enter": depth += 1
                elif x["s"] == "exit": depth -= 1
                elif x["s"] == "token" and (depth <= 0 or not x.get("exact", True)): shape = False
                if depth < 0: shape = False
            bad_native = not (flat == list(range(1, len(flat) + 1)) and shape and depth == 0 and e.get("consumed_all"))
        if bad_native:
            c.report({"kind": "protocol_lossless", "what": "the steps the real parse handed to the tree builder do not tile the raw tokens / do not form one balanced tree", "text": text, "site": "", "observed": e["sink"][:40]})
        else:
            nd += 1
            c.drift.append({"via": "EventsTrace", "text": text, "record": {k: v for k, v in e.items() if k not in ("events", "sink")}, "state": rj.get("state")})
            c.notes.append("model drift: the grammar's Marker-API calls (or the resulting raw events / builder steps) are not a behaviour of Events.tla for the text above; the C02 clauses still hold on the delivered steps")
    elif not tr.ok:
        c.tool_error(f"EventsTrace validation did not complete: {tr.error_text} {tr.raw_tail[-600:]}")
    c.cov["events_protocol"] = {"cfg": cfg, "states": r.distinct, "behaviours_replayed": d["cases"], "drift": nd,
                                "grammar_parses_validated": rec["parses"], "grammar_call_records_validated": (tr.distinct - 1) if tr.ok else 0}
    c.cov["states"] = c.cov.get("states", 0) + r.distinct + tr.distinct
    c.cov["traces_validated_against_impl"] = c.cov.get("traces_validated_against_impl", 0) + rec["parses"]
    c.assumptions.append("Events.tla: NT<=2 raw '+' tokens (thorough 3), <=7 (9) API calls, <=1 blank of trivia per gap; disciplined clients (innermost-marker completion, precede on the last completed child, jointness-respecting glued bumps) are taken to include every call sequence the grammar makes")


def main():
    c = Check("C02")
    c.level = "model_checking"
    c.assumptions += ["bounds (DESIGN 5/C01): random inputs <= 4 KiB, nesting <= 64, token sequences <= 5 (thorough) / <= 4 (quick) as Input, <= 4 / <= 3 as text",
                      "rowan and the Unicode tables are trusted", "linear work is measured as parser events <= 64 * (tokens + 1)"]
    run(c, {"C02"})
    events_protocol(c)
    c.finish()


if __name__ == "__main__":
    main_guard(main)
