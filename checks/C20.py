#!/usr/bin/env python3
"""C20 - type promotion is a join on the numeric tower and never narrows.

The real promote_types / promote_types_not_equal / can_cast_literal / equal_base_type /
implicit_cast_type are tabulated over the complete finite abstraction (128 types, 16 384 ordered
pairs).  TLC walks the table (one state per ordered pair), evaluates every clause of C20
(TypeLattice.tla, written from the statement) on the recorded answers, compares the answers with the
transcription of the code (Promote.tla; drift only), and - thorough tier - checks associativity over
all 2.1e6 triples on the table.  Rows that break a clause are classified in TLA+ by the named
deviation that predicts exactly that answer; only listed deviations are known findings.
"""
import json, os, sys
sys.path.insert(0, os.path.join(os.path.dirname(os.path.abspath(__file__)), "..", "tools"))
from vlib import *


def main():
    c = Check("C20")
    c.level = "model_checking"
    c.assumptions += ["finite abstraction: widths {1,8,32,64,128,2^32-1,none}, array shapes D1(4),D1(5),D2,D3; other widths behave like their rank (the code only compares widths with max)",
                      "the order of C20 names int, uint, float, complex only: for every other constructor two different types (up to const) have no common type"]
    build_harness()
    tp = os.path.join(c.work, "types.ndjson"); tb = os.path.join(c.work, "table.ndjson")
    p = run_harness(["types-table", tp, tb])
    if p.returncode != 0:
        c.tool_error("types-table failed: " + p.stderr[-2000:])
    types = [json.loads(l) for l in open(tp)]
    cfg = "TypeTableCheck.cfg" if c.quick else "TypeTableAssoc.cfg"
    r = run_tlc("types", "TypeTableCheck", cfg, workers=1, timeout=3000, env={"TYPES": tp, "TABLE": tb}, xss="512m")
    if r.timed_out or (not r.ok and not r.tagged):
        c.tool_error(f"TLC failed: {r.error_text}\n{r.raw_tail[-1500:]}")
    n = len(types)
    if r.distinct != n * n + 1:
        c.tool_error(f"TLC did not walk the whole table: {r.distinct} states for {n*n} rows\n{r.raw_tail[-800:]}")
    bad = r.tagged.get("BAD", [])
    nbad = 0
    for b in bad:
        ta, tb_ = types[b["a"] - 1], types[b["b"] - 1]
        v = {"kind": "deviation", "dev": b["dev"], "clauses": sorted(b["clauses"]),
             "what": f"promote_types({ta['dbg']}, {tb_['dbg']}) = {b['got']} breaks {sorted(b['clauses'])}",
             "call": {"a": ta["dbg"], "b": tb_["dbg"], "result": b["got"]}}
        if c.report(v):
            nbad += 1
            if nbad >= 10:
                break
    for a in r.tagged.get("ASSOC", []):
        c.report({"kind": "assoc", "dev": "assoc", "what": f"promotion is not associative on {a['n']} triples", "first": a.get("first")})
    for d in r.tagged.get("DRIFT", [])[:10]:
        c.drift.append({"pair": [types[d["a"] - 1]["dbg"], types[d["b"] - 1]["dbg"]], "functions": d["funcs"]})
    if c.drift:
        c.level = "exploration"
        c.notes.append("model drift: Promote.tla no longer transcribes types.rs on the listed pairs; verdicts above are unaffected (they come from TypeLattice on the recorded answers)")
    c.cov.update({"states": r.distinct, "transitions": r.generated, "traces_validated_against_impl": n * n,
                  "exhaustive": True, "types": n, "ordered_pairs": n * n,
                  "triples_checked": (n ** 3 if not c.quick else 0),
                  "rows_breaking_a_clause": len(bad),
                  "rows_by_deviation": {k: sum(1 for b in bad if b["dev"] == k) for k in sorted({b["dev"] for b in bad})}})
    rows = [json.loads(l) for i, l in enumerate(open(tb)) if i in (700, 5000, 9000)]
    for row in rows:
        c.sample({"a": types[row["a"] - 1]["dbg"], "b": types[row["b"] - 1]["dbg"], "promote_types": row["pdbg"], "can_cast_literal": row["lit"]})
    c.finish()


if __name__ == "__main__":
    main_guard(main)
