#!/usr/bin/env python3
"""C13 - gate, qubit, const and scope usage rules are diagnosed exactly.

See checks/anzcommon.py: abstract programs from the TLA+ machine spec of the analyser
(spec/analyzer/Analyzer.tla) are replayed into the real crates and compared with the model's prediction.
"""
import os, sys
sys.path.insert(0, os.path.dirname(os.path.abspath(__file__)))
from anzcommon import *

if __name__ == "__main__":
    main_guard(lambda: main_for("C13", "model_checking"))
