#!/usr/bin/env python3
"""C19 - the symbol table behaves as a stack of scopes under every operation history.

 1. TLC: SymTab (M, structured like symbols.rs) refines StackOfMaps (R, stated over the history)
    for all histories up to a bound; invariants of M.
 2. B2: TLC exports M's complete transition relation; the Rust walker drives the REAL SymbolTable
    through ALL histories up to the bound in lock-step, comparing every answer and the projected
    state after every operation.
 3. B3: random long histories over 4 names recorded from the real table, validated by TLC against
    SymTabTrace (M's actions consuming the logged events).
 4. B3 on real analyses: the operations the semantic analysis performs on corpus / mutated / generated
    programs (arbitrary names and types, recorded inside SymbolTable) validated by TLC against
    AnalyzerSymTrace (see checks/symtrace.py).
"""
import json, os, sys
sys.path.insert(0, os.path.join(os.path.dirname(os.path.abspath(__file__)), "..", "tools"))
sys.path.insert(0, os.path.dirname(os.path.abspath(__file__)))
from vlib import *


def graph_from_edges(edges, names):
    ids = {}
    def sid(s):
        k = json.dumps(s, sort_keys=True)
        if k not in ids:
            ids[k] = len(ids)
        return ids[k]
    out = []
    init = None
    for e in edges:
        f = sid(e["f"]); t = sid(e["t"])
        if e["f"]["n"] == 0:
            init = f
        out.append([f, e["op"], e["r"], e["obs"], e["t"]["u"], t])
    return {"init": init, "nstates": len(ids), "edges": out, "names": names}


BUILTINS = [{"name": n, "type": "Float(Some(64), True)"} for n in
            ["pi", "pi_u", "euler", "euler_u", "tau", "tau_u"]] + [{"name": "U", "type": "Gate(3, 1)"}]


def main():
    c = Check("C19")
    c.level = "model_checking"
    c.assumptions += [
        "TLC explores SymTab exhaustively only up to the stated number of operations; names {a,b}, types {int,qubit,gate}",
        "exit_scope on the global scope is a precondition violation (assert! in the code) and is never issued",
        "hashbrown::HashMap is trusted as a map",
    ]
    build_harness()
    # ---- 1. refinement M => R
    ref_ops = 5 if c.quick else 6
    cfg = "MCSymTab_refine.cfg" if c.quick else "MCSymTab_refine6.cfg"
    r = run_tlc("symtab", "MCSymTab", cfg, workers=8, timeout=1500, coverage=True, cache_key="refine")
    if r.timed_out:
        c.tool_error("TLC refinement run timed out")
    if not r.ok:
        # M does not refine R: either the model or (if the code agrees with M) the code is wrong.
        # M is bound to the code below; report as violation of the design-level check.
        c.report({"kind": "tlc", "what": f"SymTab does not refine StackOfMaps: {r.violated} {r.error_text}", "tail": r.raw_tail})
    c.cov["refinement"] = {"cfg": cfg, "max_ops": ref_ops, "generated": r.generated, "distinct": r.distinct,
                           "cached": r.cached, "wall_s": round(r.wall, 1)}
    c.cov["states"] = r.distinct
    c.cov["transitions"] = r.generated
    # vacuity: every action of M taken
    for act in ("DoEnter", "DoExit", "DoBindOp", "DoLookup", "DoLob"):
        if r.coverage and r.coverage.get(act, 0) == 0:
            c.tool_error(f"vacuous TLC run: action {act} never taken")

    # ---- 2. graph export + lock-step walk over all histories
    runs = [("MCSymTab_graph9.cfg", 6 if c.quick else 8, "9 operations of C19"),
            ("MCSymTab_graph.cfg", 5 if c.quick else 6, "13 operations incl. lookup-or-bind")]
    runs.append(("MCSymTab_deep.cfg", 10 if c.quick else 12, "deep and narrow: one name, one type, enter/exit/bind/lookup"))
    if not c.quick:
        runs.append(("MCSymTab_graphg.cfg", 6, "3 names x 3 types incl. a gate type, 3 scope kinds"))
    total_h = 0
    for cfg, maxlen, what in runs:
        g = run_tlc("symtab", "MCSymTab", cfg, workers=8, timeout=1500, cache_key="graph", keep_tags={"EDGE"})
        if not g.ok:
            c.tool_error(f"graph export {cfg} failed: {g.error_text} {g.raw_tail[-500:]}")
        edges = g.tagged.get("EDGE", [])
        names = sorted({n for e in edges for n in e["obs"]["vis"].keys()})
        graph = graph_from_edges(edges, names)
        graph["builtins"] = BUILTINS
        gp = os.path.join(c.work, cfg + ".graph.json")
        json.dump(graph, open(gp, "w"))
        outp = os.path.join(c.work, cfg + ".walk.json")
        p = run_harness(["symtab-walk", gp, maxlen, outp], timeout=3000)
        if p.returncode != 0:
            c.tool_error(f"walker failed: {p.stderr[-2000:]}")
        w = json.load(open(outp))
        total_h += w["histories"]
        c.cov.setdefault("walks", []).append({"cfg": cfg, "what": what, "max_len": maxlen, "graph_states": graph["nstates"],
                                               "graph_edges": len(edges), "histories_walked": w["histories"],
                                               "graph_distinct_states": g.distinct})
        c.cov["states"] = max(c.cov["states"], g.distinct)
        c.cov["transitions"] += len(edges)
        for f in w["failures"]:
            c.report({"kind": f["kind"], "what": f["what"], "history": f["history"],
                      "expected": f.get("expected"), "observed": f.get("observed"), "panic": f.get("panic"),
                      "replay_cmd": "checks/C19.py --replay <this file>"})
        if edges:
            c.sample({"history_prefix_edge": {"op": edges[len(edges) // 2]["op"], "answer": edges[len(edges) // 2]["r"]}})
    c.cov["traces_validated_against_impl"] = total_h
    c.cov["exhaustive"] = True

    # ---- 3. random long histories validated by TLC (trace validation)
    nruns, ln = (30, 200) if c.quick else (300, 200)
    tp = os.path.join(c.work, "symtab_trace.ndjson")
    p = run_harness(["symtab-record", c.seed, nruns, ln, tp])
    if p.returncode != 0:
        c.tool_error(f"recorder failed: {p.stderr[-2000:]}")
    nev = sum(1 for _ in open(tp))
    tr = run_tlc("symtab", "SymTabTrace", "SymTabTrace.cfg", workers=1, timeout=900, dfs=True, xss="1g",
                 env={"TRACE": tp})
    rej = tr.tagged.get("REJECT")
    if rej or not tr.ok:
        if tr.timed_out or (not rej and not tr.violated):
            c.tool_error(f"trace validation did not complete: {tr.error_text} {tr.raw_tail[-800:]}")
        lines = open(tp).read().split("\n")
        at = None
        if rej and isinstance(rej[0], dict):
            at = rej[0].get("line")
        # cut out the run containing the rejected line
        start = 0
        if at:
            for i in range(at - 1, -1, -1):
                if '"reset"' in lines[i]:
                    start = i
                    break
        c.report({"kind": "trace", "what": "recorded history is not a behaviour of SymTab (stack of maps)",
                  "rejected_at_line": at, "events": [json.loads(x) for x in lines[start:(at or len(lines))]][-60:],
                  "tlc": tr.raw_tail[-600:]})
    c.cov["random_trace"] = {"runs": nruns, "len": ln, "events": nev, "tlc_states": tr.distinct, "accepted": bool(tr.ok and not rej)}
    c.cov["traces_validated_against_impl"] += nruns
    with open(tp) as fh:
        evs = [json.loads(next(fh)) for _ in range(6)]
    c.sample({"recorded_events": evs})

    # ---- 4. the histories the REAL semantic analysis produces (arbitrary names and types), validated by TLC
    import symtrace
    summ, arej, atr = symtrace.record_and_validate(c)
    if arej:
        if arej["ev"].get("ev") in ("bind", "bindfail", "lookup", "enter"):
            c.report({"kind": "analysis_trace", "what": "a symbol-table answer recorded during a real analysis is not the stack-of-maps answer (AnalyzerSymTrace rejects it)",
                      "record": arej["ev"], "state": arej["state"], "text": arej["text"]})
        else:
            c.notes.append("AnalyzerSymTrace rejected a scope-discipline record (C03's concern, reported there): " + json.dumps(arej["ev"])[:200])
    c.cov["analysis_traces"] = {"programs": summ["analysed"], "records_validated": (atr.distinct - 1) if atr.ok else 0}
    c.cov["traces_validated_against_impl"] += summ["analysed"]
    c.finish()


if __name__ == "__main__":
    main_guard(main)
