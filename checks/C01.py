#!/usr/bin/env python3
"""C01 - lexing and parsing return normally on every input (no panic, no hang, linear work).

Both public parse entry points are driven over (i) every token sequence up to a length over the full
91-kind token alphabet, as oq3_parser::Input (all jointness patterns) and rendered to text, (ii) the
robustness corpus (repository texts, mutations, random UTF-8, token soup, deep nesting).  Hooks turn a
non-terminating grammar loop into an attributable panic.  A stride sample of the recorded parse
observations (tree rows, diagnostics) is validated by TLC against TreeTrace.tla / TreeShape.tla.

Grammar machine spec (spec/pgrammar/Grammar.tla): every function of grammar.rs / items.rs / expressions.rs /
atom.rs / params.rs transcribed over the Parser/Marker API.  TLC (MCGrammar) visits EVERY token sequence of nine
families (expression, precedence, operator, declaration, control-flow, definition, call, miscellaneous alphabets
and the full 91-kind alphabet) up to a length, proves C01's clauses on the model in every state (no failed
assertion / unreachable, no loop iteration without progress, all tokens consumed, one balanced tree after
event::process, events <= 64 * (tokens + 1)) and exports every state; the harness runs the REAL parser on the same
oq3_parser::Input and compares the raw event lists (kinds, forward parents, glued tokens, error messages): a
difference is model drift, a panic or an exceeded work bound of the real parser is a violation.  Long sequences
come from TLC simulation of the same spec.
"""
import os, sys
sys.path.insert(0, os.path.dirname(os.path.abspath(__file__)))
from parsecommon import *


def replay_model_cases(c, gz, label):
    import gzip, shutil
    plain = os.path.join(c.work, f"mcg_{label}.ndjson"); of = os.path.join(c.work, f"mcg_{label}_out.json")
    with gzip.open(gz, "rb") as fi, open(plain, "wb") as fo:
        shutil.copyfileobj(fi, fo)
    p = run_harness(["gram-model-cases", plain, of], timeout=3000)
    os.remove(plain)
    if p.returncode != 0:
        c.tool_error("gram-model-cases failed: " + p.stderr[-1500:])
    d = json.load(open(of))
    nd = 0
    for f in d["failures"]:
        if f["kind"] in ("events_mismatch", "model_bad"):
            nd += 1
            if len(c.drift) < 4:
                c.drift.append({k: f.get(k) for k in ("kind", "toks", "at", "model", "real", "model_bad")})
        else:
            c.report({"kind": "model_case_" + f["kind"], "what": f["what"], "tokens": " ".join(t["k"] + ("'" if t["j"] else "") for t in f["toks"]),
                      "site": f.get("site") or "", "panic": f.get("panic"), "model_predicts": f.get("model_bad")})
    return d, nd


def grammar_model(c):
    cfg = "MCGrammar_quick.cfg" if c.quick else "MCGrammar_thorough.cfg"
    r, gz, n = run_tlc_stream("pgrammar", "MCGrammar", cfg, "CASE", workers=8, timeout=6000, lib="events", cache_key="v1")
    if not r.ok:
        c.tool_error(f"MCGrammar {cfg}: {r.violated or r.error_text} {r.raw_tail[-600:]}")
    d, nd = replay_model_cases(c, gz, "bfs")
    # long sequences: seeded simulation of the same spec
    # (thorough: 1 500 walks; 6 000 did not fit into the time limit when other checks share the machine - about one walk per second)
    nsim, depth = (300, 14) if c.quick else (1500, 16)
    s, sgz, sn = run_tlc_stream("pgrammar", "MCGrammar", "MCGrammar_sim.cfg", "CASE", workers=1, timeout=6000, lib="events", cache_key="sim",
                                simulate=nsim, depth=depth, seed=c.seed)
    if not s.ok:
        c.tool_error(f"MCGrammar simulation: {s.violated or s.error_text} {s.raw_tail[-600:]}")
    d2, nd2 = replay_model_cases(c, sgz, "sim")
    # B3: parses of corpus / mutated / random texts by the real parser (tokens as the parser's Input, raw events) validated against the machine spec
    cp = os.path.join(c.work, "corpus_gt.json")
    json.dump(corpus_mod.collect(), open(cp, "w"))
    gt = os.path.join(c.work, "gtrace.ndjson")
    nm, nr = (25, 25) if c.quick else (400, 400)
    p = run_harness(["gram-trace-record", c.seed, cp, nm, nr, 60, gt], timeout=3000)
    if p.returncode != 0:
        c.tool_error("gram-trace-record failed: " + p.stderr[-1500:])
    rec = json.loads(p.stdout.strip().split("\n")[-1])
    for pn in rec["panics"][:3]:
        c.report({"kind": "panic", "what": "lexing / parsing panicked while a parse was recorded", "text": pn["text"], "panic": pn["panic"], "site": (pn["panic"] or {}).get("func", "")})
    tr = run_tlc("pgrammar", "GrammarTrace", "GrammarTrace.cfg", workers=1, timeout=3000, dfs=True, xss="1g", xmx="12g", lib="events", env={"TRACE": gt})
    rej = tr.tagged.get("REJECT")
    ngt = 0
    if rej:
        nd2 += 1
        c.drift.append({"via": "GrammarTrace", "text": rej[0].get("text"), "diff": rej[0].get("diff")})
    elif not tr.ok:
        c.tool_error(f"GrammarTrace validation did not complete: {tr.error_text} {tr.raw_tail[-600:]}")
    else:
        ngt = rec["recorded"]
    if nd + nd2:
        c.notes.append(f"model drift: on {nd + nd2} token sequences the real parser's raw events are not those of the grammar machine spec (Grammar.tla); C01's clauses are evaluated on the real run")
    c.cov["grammar_machine_spec"] = {"cfg": cfg, "states": r.distinct, "sequences_replayed": d["cases"], "families": d["families"], "node_kinds_seen": len(d["node_kinds"]),
                                     "simulated_sequences_replayed": d2["cases"], "drift": nd + nd2, "corpus_parses_validated_by_tlc": ngt,
                                     "invariant": "C01_Model: ReturnsNormally /\\ ConsumesAll /\\ MarkersDischarged (one balanced tree after event::process) /\\ LinearWork /\\ tokens consumed exactly once"}
    c.cov["states"] = c.cov.get("states", 0) + r.distinct
    c.cov["traces_validated_against_impl"] = c.cov.get("traces_validated_against_impl", 0) + d["cases"] + d2["cases"] + ngt
    c.assumptions.append("grammar machine spec: nine token families, sequences <= 2-5 tokens (quick) / <= 2-6 (thorough) with every jointness pattern, plus simulated sequences of up to 14-16 tokens")


def main():
    c = Check("C01")
    c.level = "model_checking"
    c.assumptions += ["bounds (DESIGN 5/C01): random inputs <= 4 KiB, nesting <= 64, token sequences <= 5 (thorough) / <= 4 (quick) as Input, <= 4 / <= 3 as text",
                      "rowan and the Unicode tables are trusted", "linear work is measured as parser events <= 64 * (tokens + 1)"]
    run(c, {"C01"})
    grammar_model(c)
    c.finish()


if __name__ == "__main__":
    main_guard(main)
