"""Shared by C04, C05, C16: TLC evaluates GrammarCases (families derived from RefGrammar) and prints
cases; the harness renders them under 4 layouts and drives the real front end."""
import json, os, sys
sys.path.insert(0, os.path.join(os.path.dirname(os.path.abspath(__file__)), "..", "tools"))
from vlib import *


def generate(c):
    cfg = "GrammarCases_quick.cfg" if c.quick else "GrammarCases_thorough.cfg"
    r = run_tlc("grammar", "GrammarCases", cfg, workers=1, timeout=3000, xss="1g", cache_key="gc", keep_tags={"CASE", "SEQ", "COUNT"}, xmx="12g")
    if not r.ok:
        c.tool_error(f"GrammarCases failed: {r.error_text} {r.raw_tail[-800:]}")
    return r.tagged.get("CASE", []), r.tagged.get("SEQ", []), r.tagged.get("COUNT", [{}])[0]


def run_cases(c, cases):
    cp = os.path.join(c.work, "gcases.ndjson")
    with open(cp, "w") as fh:
        for x in cases:
            fh.write(json.dumps(x) + "\n")
    op = os.path.join(c.work, "gout.json")
    p = run_harness(["gram-cases", cp, op], timeout=3000)
    if p.returncode != 0:
        c.tool_error("gram-cases failed: " + p.stderr[-1500:])
    return json.load(open(op))


def run_seqs(c, seqs):
    cp = os.path.join(c.work, "gseqs.ndjson")
    with open(cp, "w") as fh:
        for x in seqs:
            fh.write(json.dumps(x) + "\n")
    op = os.path.join(c.work, "sout.json")
    p = run_harness(["seq-cases", cp, op], timeout=3000)
    if p.returncode != 0:
        c.tool_error("seq-cases failed: " + p.stderr[-1500:])
    return json.load(open(op))


def family(sig):
    """the part of a case signature that identifies its family (operators dropped for the pair tables)"""
    parts = sig.split(":")
    return sig if parts[0].startswith("stmt") or parts[0] in ("annotated",) else parts[0]
