#!/usr/bin/env python3
"""C18 - includes act as in-place textual inclusion with ordered path search.

IncludeSem.tla (R) states textual inclusion and the ordered path search; Includes.tla (M) models the two
phases of the code (parse_included_files building the vector `included`, syntax_to_semantic consuming it
with a cursor).  TLC checks M |= R (LockStep / IncludeSem) for every arrangement of 3 files over 2
directories (present in none / one / both), nesting depth <= 3, absolute and relative paths, with /
without search list and QASM3_PATH, 1-2 include sites incl. stdgates.inc and an include below global
scope, and prints every arrangement with the required observation; the harness materialises a stride
sample (thorough: all) in a private directory tree and compares the real analysis.
"""
import json, os, sys
sys.path.insert(0, os.path.join(os.path.dirname(os.path.abspath(__file__)), "..", "tools"))
from vlib import *


def main():
    c = Check("C18")
    c.level = "model_checking"
    c.assumptions += ["arrangements are acyclic (a file includes only higher-numbered files); include cycles recurse without bound in the code and are out of the quantifier",
                      "the file system is a private temporary tree; QASM3_PATH is set per case in the harness process; the working directory is an empty directory"]
    build_harness()
    total_states = 0; cases = []
    for cfg, stride in (("Includes.cfg", 40 if c.quick else 1), ("Includes2.cfg", 40 if c.quick else 2)):
        r = run_tlc("includes", "Includes", cfg, workers=8, timeout=2400, xss="512m", cache_key="inc2", keep_tags={"CASE"}, xmx="16g")
        if not r.ok:
            c.report({"kind": "tlc", "what": f"Includes does not satisfy IncludeSem ({cfg}): {r.violated} {r.error_text}", "tail": r.raw_tail[-600:]})
            continue
        total_states += r.distinct
        cs = r.tagged.get("CASE", [])
        off = c.seed % stride
        cases += cs[off::stride]
        c.cov.setdefault("configs", []).append({"cfg": cfg, "tlc_states": r.distinct, "arrangements": len(cs), "replayed": len(cs[off::stride])})
    cp = os.path.join(c.work, "inc.ndjson")
    with open(cp, "w") as fh:
        for x in cases:
            fh.write(json.dumps(x) + "\n")
    wd = os.path.join(c.work, "tree"); os.makedirs(wd, exist_ok=True)
    op = os.path.join(c.work, "incout.json")
    p = run_harness(["inc-cases", cp, wd, op], timeout=6000)
    if p.returncode != 0:
        c.tool_error("inc-cases failed: " + p.stderr[-1500:])
    d = json.load(open(op))
    seen = set()
    for f in d["failures"]:
        if f.get("prop") == "C12":          # span of a diagnostic: C12's business (checks/C12.py runs the same arrangements)
            c.notes.append("a semantic diagnostic of an arrangement has an invalid span (reported by C12)")
            continue
        key = (f["kind"], f["what"], f.get("site", ""))
        if key in seen:
            continue
        seen.add(key)
        c.report({"kind": f["kind"], "what": f["what"], "site": f.get("site", ""), "cfg": f["cfg"], "main": f["main"], "detail": f["detail"]})
    c.cov.update({"states": total_states, "transitions": total_states, "traces_validated_against_impl": d["runs"], "exhaustive": not c.quick})
    c.sample(cases[len(cases) // 2])
    c.sample(cases[-3])
    c.finish()


if __name__ == "__main__":
    main_guard(main)
