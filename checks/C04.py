#!/usr/bin/env python3
"""C04 - valid OpenQASM 3 programs are accepted with zero syntax diagnostics.

RefGrammar.tla (R) is the abstract syntax of the supported subset with a printer that inserts exactly
the parentheses the OpenQASM 3 precedence table requires (or redundant ones).  GrammarCases derives
case families (every operator pair/unary/postfix combination in four expression contexts, every
statement kind with every body form, modifiers, types, ...); TLC prints them, the harness renders each
under 4 layouts (blank-separated, minimal, one token per line, comments between all tokens) and requires
both parse entry points to report no diagnostic.

Design level (spec/gramrefine/GramRefine.tla): the composition of the machine specs of the front end -
text -> Lexer -> TokenTable -> ToInput -> Grammar -> event::process - is model-checked by TLC against the same
reference programs: no lexical diagnostic, no error event, normal return, all tokens consumed, one balanced tree
(invariant C04_Model; the known finding C04-assignment-binary-rhs is a named deviation Dev_AssignBinaryRhs).  The
machine specs are bound to the code by the replays of C14 (MCLexer) and C01 (MCGrammar).
"""
import os, sys
sys.path.insert(0, os.path.dirname(os.path.abspath(__file__)))
from gramcommon import *


def main():
    c = Check("C04")
    c.level = "model_checking"
    c.assumptions += ["the reference grammar covers the constructs enumerated in C04 with small operand pools; expression depth <= 3",
                      "TLC evaluates the case families exhaustively (no state space: the families are finite sets)"]
    build_harness()
    cases, seqs, counts = generate(c)
    out = run_cases(c, cases)
    seen = set()
    for f in out["failures"]:
        if f["prop"] != "C04":
            continue
        fam = family(f["sig"])
        key = (f["kind"], fam)
        if key in seen:
            continue
        seen.add(key)
        c.report({"kind": f["kind"], "family": fam, "sig": f["sig"], "what": f["what"] + f" [{f['sig']}]", "text": f["text"], "layout": f["layout"], "detail": f["detail"]})
    gr = run_tlc("gramrefine", "GramRefine", "GramRefine.cfg" if c.quick else "GramRefine_thorough.cfg", workers=8, timeout=6000, xss="1g", xmx="12g",
                 lib=["grammar", "lexer", "pgrammar", "events"], cache_key="v1", keep_tags=set())
    if not gr.ok and c.violations:
        # the real parser already shows a violation (reported below); the design-level failure is most likely the same defect transcribed
        c.notes.append(f"GramRefine also fails: {gr.violated or gr.error_text}")
    elif not gr.ok:
        c.tool_error(f"GramRefine: the front-end machine specs do not accept the reference programs: {gr.violated or gr.error_text} {gr.raw_tail[-800:]}")
    c.cov["design_level"] = {"module": "GramRefine", "invariant": "C04_Model", "programs": gr.distinct}
    c.cov.update({"states": len(cases) + gr.distinct, "transitions": out["runs"], "traces_validated_against_impl": out["runs"], "exhaustive": True,
                  "cases": len(cases), "renderings_parsed": out["runs"], "families": counts})
    for i in (5, len(cases) // 2, len(cases) - 7):
        c.sample({"sig": cases[i]["sig"], "tokens": " ".join(cases[i]["toks"])[:200]})
    c.finish()


if __name__ == "__main__":
    main_guard(main)
