"""Shared by C03 and C19 (B3 on real analyses): the REAL semantic analysis is run on every corpus / mutated /
random text and every TLC-generated program of the wider grammar (RefGrammar/GrammarCases) that parses without
any diagnostic; the symbol-table operations it performs are recorded inside SymbolTable (hook oq3_semantics::verif)
and validated by TLC against spec/symtab/AnalyzerSymTrace.tla (the machine spec SymTab with the logged answers,
plus: only the global scope is open when the analysis returns)."""
import json, os, re, sys
sys.path.insert(0, os.path.join(os.path.dirname(os.path.abspath(__file__)), "..", "tools"))
from vlib import *
import corpus as corpus_mod


def record_and_validate(c):
    cp = os.path.join(c.work, "corpus_sym.json")
    texts = corpus_mod.collect()
    # the typed programs of TypeRules.tla (declarations with every designator form, signatures, conversions, arithmetic):
    # short valid-syntax programs that reach the type and designator paths of the analysis
    t = run_tlc("typerules", "TypeRules", "TypeRules.cfg", workers=1, timeout=900, xss="512m", cache_key="tr", keep_tags={"DECL", "SIG", "LISTING", "ROW", "ARITH"})
    if not t.ok:
        c.tool_error(f"TypeRules failed: {t.error_text} {t.raw_tail[-600:]}")
    rs, ars = (10, 40) if c.quick else (2, 8)
    typed = [x["text"] for x in t.tagged.get("DECL", [])] + [x["text"] for x in t.tagged.get("SIG", [])] \
        + sorted(x["text"] for x in t.tagged.get("ROW", []))[::rs] + sorted(x["text"] for x in t.tagged.get("ARITH", []))[::ars]
    seen = set(texts)
    for x in typed:
        if x not in seen:
            seen.add(x); texts.append(x)
    c.cov["typed_programs_analysed"] = len(typed)
    json.dump(texts, open(cp, "w"))
    gp = os.path.join(c.work, "gcases_sym.ndjson")
    cfg = "GrammarCases_quick.cfg" if c.quick else "GrammarCases_thorough.cfg"
    r = run_tlc("grammar", "GrammarCases", cfg, workers=1, timeout=3000, xss="1g", cache_key="gc", keep_tags={"CASE", "SEQ", "COUNT"}, xmx="12g")
    if not r.ok:
        c.tool_error(f"GrammarCases failed: {r.error_text} {r.raw_tail[-800:]}")
    with open(gp, "w") as fh:
        for x in r.tagged.get("CASE", []):
            fh.write(json.dumps(x) + "\n")
    ev = os.path.join(c.work, "anzsym.ndjson"); sm = os.path.join(c.work, "anzsym_sum.json")
    nm, nr = (3000, 1500) if c.quick else (40000, 20000)
    p = run_harness(["anz-symtrace", c.seed, cp, nm, nr, ev, sm, gp], timeout=3000)
    if p.returncode != 0:
        c.tool_error("anz-symtrace failed: " + p.stderr[-1500:])
    summ = json.load(open(sm))
    if summ["bad_init"]:
        c.tool_error("anz-symtrace: SymbolTable::new() did not record the expected 8 operations: " + json.dumps(summ["bad_init"][0])[:400])
    tr = run_tlc("symtab", "AnalyzerSymTrace", "AnalyzerSymTrace.cfg", workers=1, timeout=3000, dfs=True, xss="1g", env={"TRACE": ev})
    rej = None
    if tr.tagged.get("REJECT"):
        rj = tr.tagged["REJECT"][0]
        lines = open(ev).read().split("\n")
        text = None
        for k in range(rj["line"] - 1, -1, -1):
            x = json.loads(lines[k])
            if x["ev"] == "reset":
                text = x["text"]; break
        rej = {"line": rj["line"], "ev": rj["ev"], "state": rj.get("state"), "text": text}
    elif not tr.ok:
        c.tool_error(f"AnalyzerSymTrace validation did not complete: {tr.violated or tr.error_text} {tr.raw_tail[-600:]}")
    return summ, rej, tr


def panic_key(p):
    """(function, message with node ranges removed, text of the source line that panicked)"""
    pn = p["panic"] or {}
    msg = re.sub(r"[A-Z_]+@\d+\.\.\d+", "@", pn.get("msg", ""))
    src = ""
    try:
        src = open(os.path.join("/repo", pn["file"])).read().split("\n")[pn["line"] - 1].strip()
    except Exception:
        pass
    return pn.get("func", ""), msg, src
