#!/usr/bin/env python3
"""C14 - tokens partition the input on character boundaries.

 * B2-style bounded-exhaustive: every string of length <= 6 (thorough: 7) over three 14-character
   alphabets of lexically critical characters goes through oq3_lexer::tokenize and LexedStr; the
   partition monitors are evaluated on each (harness-native at this scale: 2.4e7 / 3.4e8 strings).
 * B3: the robustness corpus (repository texts, mutations, random UTF-8, nesting) is lexed; a stride
   sample of the recorded token streams / tables is validated by TLC against LexTrace.tla, whose
   clauses are the statement of C14 (the same predicates the harness evaluates natively).
 * Machine spec: Lexer.tla transcribes Cursor::advance_token and every scanner.  TLC (MCLexer) visits
   every text over five alphabets / chunk sets up to a chunk bound, proves the C14 clauses (and three
   design facts) on the model's token stream in every state, and exports every state as a case; the
   harness replays each case through oq3_lexer::tokenize and LexedStr (B1): the real stream must be
   the model's (kind, length, flags, suffix offset) - a difference is model drift - and the C14
   clauses are evaluated on the real stream (violation).  B3: token streams recorded from corpus /
   mutated / random texts are validated by TLC against the same machine spec (LexerTrace.tla).
"""
import json, os, sys
sys.path.insert(0, os.path.join(os.path.dirname(os.path.abspath(__file__)), "..", "tools"))
from vlib import *
import corpus as corpus_mod

ALPHABETS = {
    "A": ["0", "1", "9", "b", "x", "e", "E", "_", ".", "+", "s", "m", "%%00B5;", " "],
    "B": ["\"", "'", "\\", "\n", "_", "0", "1", "2", "/", "*", "a", " ", "%%00E9;", "%%0000;"],
    "C": ["O", "P", "#", "p", "r", "d", "@", "$", "3", ".", ";", " ", "\n", "%%1F600;"],
}


def lexer_model(c, texts, cp):
    """MCLexer (M |= C14 on every text up to the bound) + B1 replay + B3 validation against Lexer.tla."""
    fam = []; mstates = 0; ndrift = 0
    for a in "ABCDE":
        cfg = f"MCLexer_{a}.cfg" if c.quick else f"MCLexer_{a}_thorough.cfg"
        r = run_tlc("lexer", "MCLexer", cfg, workers=8, timeout=3000, cache_key="v1", keep_tags=["CASE"], xmx="16g")
        if not r.ok:
            c.tool_error(f"MCLexer {cfg}: {r.violated or r.error_text} {r.raw_tail[-600:]}")
        cases = r.tagged.get("CASE", [])
        cf = os.path.join(c.work, f"mclex_{a}.json"); of = os.path.join(c.work, f"mclex_{a}_out.json")
        json.dump(cases, open(cf, "w"))
        p = run_harness(["lexm-cases", cf, of], timeout=3000)
        if p.returncode != 0:
            c.tool_error("lexm-cases failed: " + p.stderr[-1500:])
        d = json.load(open(of))
        mstates += r.distinct
        fam.append({"chunks": a, "cfg": cfg, "states": r.distinct, "cases": d["cases"], "texts_replayed": d["texts"], "kinds_seen": d["kinds"]})
        for f in d["failures"]:
            if f["kind"] in ("model_mismatch", "table_mismatch"):
                ndrift += 1
                if len(c.drift) < 5:
                    c.drift.append({k: f[k] for k in ("text", "at", "model", "real")})
            elif f["kind"] == "harness":
                c.tool_error("lexm-cases: " + json.dumps(f)[:400])
            else:
                site = (f.get("panic") or {}).get("func", "")
                c.report({"kind": f["kind"], "what": f["what"], "text": f["text"], "site": site, "panic": f.get("panic"), "via": "MCLexer case"})
    # B3: recorded streams against the machine spec
    ev = os.path.join(c.work, "lexm.ndjson")
    nm, nr = (400, 400) if c.quick else (6000, 6000)
    p = run_harness(["lexm-record", c.seed, cp, nm, nr, ev], timeout=3000)
    if p.returncode != 0:
        c.tool_error("lexm-record failed: " + p.stderr[-1500:])
    nrec = json.loads(p.stdout.strip().split("\n")[-1])["recorded"]
    tr = run_tlc("lexer", "LexerTrace", "LexerTrace.cfg", workers=1, timeout=3000, dfs=True, xss="1g", env={"TRACE": ev})
    rej = tr.tagged.get("REJECT")
    if rej:
        line = rej[0]["line"]
        evs = open(ev).read().split("\n")
        e = json.loads(evs[line - 1]) if line - 1 < len(evs) else {}
        if e.get("ev") == "panic":
            c.report({"kind": "panic", "what": "tokenize panicked", "text": e.get("text"), "panic": e.get("panic"), "site": (e.get("panic") or {}).get("func", "")})
        else:
            ndrift += 1
            c.drift.append({"text": e.get("text"), "diff": rej[0].get("diff"), "via": "LexerTrace"})
    elif not tr.ok:
        c.tool_error(f"LexerTrace validation did not complete: {tr.error_text} {tr.raw_tail[-600:]}")
    if ndrift:
        c.notes.append(f"model drift: {ndrift} texts on which oq3_lexer's stream is not the machine spec's (Lexer.tla); the C14 verdict is unaffected - the partition clauses are evaluated on the real stream")
    c.cov["lexer_machine_spec"] = {"families": fam, "trace_events_validated": tr.distinct - 1 if tr.ok else 0, "trace_events_recorded": nrec, "drift_texts": ndrift}
    c.cov["_mstates"] = mstates + tr.distinct
    c.assumptions.append("MCLexer: texts over 5 chunk sets (16-20 chunks each), at most 4 chunks (thorough: 5); Unicode classes are represented by 4-5 characters each")


def main():
    c = Check("C14")
    c.level = "model_checking"
    c.assumptions += ["size bound for random inputs 4 KiB (DESIGN 5/C01)", "the partition clauses are evaluated natively by the harness for the exhaustive families and by TLC (LexTrace.tla) on a stride sample of recorded streams"]
    build_harness()
    maxlen = 6 if c.quick else 7
    total = 0
    for name, alpha in ALPHABETS.items():
        outp = os.path.join(c.work, f"ex_{name}.json")
        p = run_harness(["lex-exhaustive", json.dumps(alpha), maxlen, outp], timeout=3000)
        if p.returncode != 0:
            c.tool_error("lex-exhaustive failed: " + p.stderr[-1500:])
        d = json.load(open(outp))
        total += d["strings"]
        for f in sorted(d["failures"], key=lambda f: len(f["text"]))[:3]:
            site = (f.get("panic") or {}).get("func", "")
            c.report({"kind": f["kind"], "what": f["what"], "text": f["text"], "alphabet": name, "site": site, "panic": f.get("panic"), "detail": {k: v for k, v in f.items() if k not in ("text", "panic")}})
        c.cov.setdefault("exhaustive_families", []).append({"alphabet": name, "chars": alpha, "max_len": maxlen, "strings": d["strings"]})
    # corpus + random
    cp = os.path.join(c.work, "corpus.json")
    texts = corpus_mod.collect()
    json.dump(texts, open(cp, "w"))
    nm, nr = (4000, 4000) if c.quick else (60000, 60000)
    ev = os.path.join(c.work, "lexev.ndjson"); ro = os.path.join(c.work, "lexrec.json")
    p = run_harness(["lex-record", c.seed, cp, nm, nr, ev, ro], env={"LEX_TRACE_SAMPLE": "600" if c.quick else "3000"})
    if p.returncode != 0:
        c.tool_error("lex-record failed: " + p.stderr[-1500:])
    d = json.load(open(ro))
    for f in sorted(d["failures"], key=lambda f: len(f["text"]))[:3]:
        site = (f.get("panic") or {}).get("func", "")
        c.report({"kind": f["kind"], "what": f["what"], "text": f["text"], "site": site, "panic": f.get("panic")})
    tr = run_tlc("lextrace", "LexTrace", "LexTrace.cfg", workers=1, timeout=1500, dfs=True, xss="1g", env={"TRACE": ev})
    rej = tr.tagged.get("REJECT")
    if rej:
        line = rej[0]["line"]
        evs = open(ev).read().split("\n")
        c.report({"kind": "trace", "what": "recorded token stream / table violates a clause of LexTrace (C14)", "line": line,
                  "event": json.loads(evs[line - 1]) if line - 1 < len(evs) else None})
    elif not tr.ok:
        c.tool_error(f"LexTrace validation did not complete: {tr.error_text} {tr.raw_tail[-600:]}")
    lexer_model(c, texts, cp)
    c.cov.update({"states": tr.distinct + c.cov.pop("_mstates", 0), "transitions": tr.generated, "traces_validated_against_impl": d["recorded"],
                  "exhaustive": True, "strings_exhaustive": total, "corpus_texts": len(texts), "robustness_inputs": d["inputs"],
                  "max_input_len": d["max_len"]})
    for s in d["samples"][:3]:
        c.sample({"text": s[:200]})
    c.finish()


if __name__ == "__main__":
    main_guard(main)
