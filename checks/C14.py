#!/usr/bin/env python3
"""C14 - tokens partition the input on character boundaries.

 * B2-style bounded-exhaustive: every string of length <= 6 (thorough: 7) over three 14-character
   alphabets of lexically critical characters goes through oq3_lexer::tokenize and LexedStr; the
   partition monitors are evaluated on each (harness-native at this scale: 2.4e7 / 3.4e8 strings).
 * B3: the robustness corpus (repository texts, mutations, random UTF-8, nesting) is lexed; a stride
   sample of the recorded token streams / tables is validated by TLC against LexTrace.tla, whose
   clauses are the statement of C14 (the same predicates the harness evaluates natively).
"""
import json, os, sys
sys.path.insert(0, os.path.join(os.path.dirname(os.path.abspath(__file__)), "..", "tools"))
from vlib import *
import corpus as corpus_mod

ALPHABETS = {
    "A": ["0", "1", "9", "b", "x", "e", "E", "_", ".", "+", "s", "m", "%%00B5;", " "],
    "B": ["\"", "'", "\\", "\n", "_", "0", "1", "2", "/", "*", "a", " ", "%%00E9;", "%%0000;"],
    "C": ["O", "P", "#", "p", "r", "d", "@", "$", "3", ".", ";", " ", "\n", "%%1F600;"],
}


def main():
    c = Check("C14")
    c.level = "model_checking"
    c.assumptions += ["size bound for random inputs 4 KiB (DESIGN 5/C01)", "the partition clauses are evaluated natively by the harness for the exhaustive families and by TLC (LexTrace.tla) on a stride sample of recorded streams"]
    build_harness()
    maxlen = 6 if c.quick else 7
    total = 0
    for name, alpha in ALPHABETS.items():
        outp = os.path.join(c.work, f"ex_{name}.json")
        p = run_harness(["lex-exhaustive", json.dumps(alpha), maxlen, outp], timeout=3000)
        if p.returncode != 0:
            c.tool_error("lex-exhaustive failed: " + p.stderr[-1500:])
        d = json.load(open(outp))
        total += d["strings"]
        for f in sorted(d["failures"], key=lambda f: len(f["text"]))[:3]:
            site = (f.get("panic") or {}).get("func", "")
            c.report({"kind": f["kind"], "what": f["what"], "text": f["text"], "alphabet": name, "site": site, "panic": f.get("panic"), "detail": {k: v for k, v in f.items() if k not in ("text", "panic")}})
        c.cov.setdefault("exhaustive_families", []).append({"alphabet": name, "chars": alpha, "max_len": maxlen, "strings": d["strings"]})
    # corpus + random
    cp = os.path.join(c.work, "corpus.json")
    texts = corpus_mod.collect()
    json.dump(texts, open(cp, "w"))
    nm, nr = (4000, 4000) if c.quick else (60000, 60000)
    ev = os.path.join(c.work, "lexev.ndjson"); ro = os.path.join(c.work, "lexrec.json")
    p = run_harness(["lex-record", c.seed, cp, nm, nr, ev, ro], env={"LEX_TRACE_SAMPLE": "600" if c.quick else "3000"})
    if p.returncode != 0:
        c.tool_error("lex-record failed: " + p.stderr[-1500:])
    d = json.load(open(ro))
    for f in sorted(d["failures"], key=lambda f: len(f["text"]))[:3]:
        site = (f.get("panic") or {}).get("func", "")
        c.report({"kind": f["kind"], "what": f["what"], "text": f["text"], "site": site, "panic": f.get("panic")})
    tr = run_tlc("lextrace", "LexTrace", "LexTrace.cfg", workers=1, timeout=1500, dfs=True, xss="1g", env={"TRACE": ev})
    rej = tr.tagged.get("REJECT")
    if rej:
        line = rej[0]["line"]
        evs = open(ev).read().splitlines()
        c.report({"kind": "trace", "what": "recorded token stream / table violates a clause of LexTrace (C14)", "line": line,
                  "event": json.loads(evs[line - 1]) if line - 1 < len(evs) else None})
    elif not tr.ok:
        c.tool_error(f"LexTrace validation did not complete: {tr.error_text} {tr.raw_tail[-600:]}")
    c.cov.update({"states": tr.distinct, "transitions": tr.generated, "traces_validated_against_impl": d["recorded"],
                  "exhaustive": True, "strings_exhaustive": total, "corpus_texts": len(texts), "robustness_inputs": d["inputs"],
                  "max_input_len": d["max_len"]})
    for s in d["samples"][:3]:
        c.sample({"text": s[:200]})
    c.finish()


if __name__ == "__main__":
    main_guard(main)
