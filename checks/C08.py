#!/usr/bin/env python3
"""C08 - expressions are typed consistently; conversions are explicit or diagnosed.

TypeRules.tla (R) enumerates every ordered pair of scalar types (9 base types x widths {none, 8, 32, 64}
x const) as target / value type, for declarations and assignments, with the value given as variable,
const variable, arithmetic expression, cast, call, literal of each class and measurement (7 866 rows),
with the flag 'must always be diagnosed' computed from the statement (kind lowered, to/from
bit/bool/duration/angle, negative literal to unsigned, width narrowing of a non-constant value), and every
arithmetic operator over every pair of numeric operand types (2 560 rows).  The harness analyses each
row and reports what the graph holds; a row is in order iff it is diagnosed, or the value's type equals
the target up to const-ness directly, or through one explicit cast to exactly the target type; must-rows
need the diagnostic; the value expression must carry the type of its symbol / literal class / cast target
/ measured operand; arithmetic operands must have the expression's type or be explicitly cast to it.
"""
import json, os, sys
sys.path.insert(0, os.path.join(os.path.dirname(os.path.abspath(__file__)), "..", "tools"))
from vlib import *


def mechanism(f):
    k = f["kind"]
    if f["stmt"] == "arith":
        bases = {f["lt"].split("(")[0], f["rt"].split("(")[0]}
        return "int_uint_arith" if bases == {"Int", "UInt"} else "arith:" + "/".join(sorted(bases))
    if f["form"] == "lit" and f.get("vw") in ("2im", "-2 im"):
        return "imaginary_int_literal"
    if k == "unconverted" and f["stmt"] == "decl" and f["form"] in ("constvar", "call", "cast") and f["tb"] == f["vb"]:
        return "narrow_const_value"
    if k == "unconverted" and f["stmt"] == "assign" and f["form"] == "lit" and f["vb"] == "int":
        return "int_literal_assignment"
    return f"{f.get('tb')}<-{f.get('vb')}:{f['form']}"


def main():
    c = Check("C08")
    c.level = "exploration"
    c.assumptions += ["exhaustive over the stated finite abstraction of types and value forms", "for '/' any result type is accepted as long as the operands are cast to it",
                      "diagnostics of the statement under test = diagnostics beyond those of its prefix (one-pass)"]
    build_harness()
    r = run_tlc("typerules", "TypeRules", "TypeRules.cfg", workers=1, timeout=900, xss="512m", cache_key="tr", keep_tags={"DECL", "SIG", "LISTING", "ROW", "ARITH"})
    if not r.ok:
        c.tool_error(f"TypeRules failed: {r.error_text} {r.raw_tail[-600:]}")
    rows = r.tagged.get("ROW", []); arith = r.tagged.get("ARITH", [])
    rp = os.path.join(c.work, "rows.ndjson"); ap = os.path.join(c.work, "arith.ndjson"); op = os.path.join(c.work, "tyout.json")
    open(rp, "w").write("\n".join(json.dumps(x) for x in rows)); open(ap, "w").write("\n".join(json.dumps(x) for x in arith))
    p = run_harness(["ty-rows", rp, ap, op])
    if p.returncode != 0:
        c.tool_error("ty-rows failed: " + p.stderr[-1500:])
    d = json.load(open(op))
    seen = set(); nsyntax = 0
    for f in d["failures"]:
        if f["kind"] == "syntax":
            nsyntax += 1
            continue
        mech = mechanism(f)
        key = (f["kind"], f["stmt"], mech)
        if key in seen:
            continue
        seen.add(key)
        site = (f.get("detail") or {}).get("site") or ""
        c.report({"kind": f["kind"], "stmt": f["stmt"], "mechanism": mech, "what": f["what"] + f": {f['text']!r}", "text": f["text"], "site": site, "detail": f["detail"]})
    if nsyntax:
        c.notes.append(f"{nsyntax} rows could not be parsed and were skipped")
    c.cov.update({"evaluations": d["rows"] + d["arith"], "distinct_nontrivial": len({x["text"] for x in rows + arith}),
                  "rule": "one row per (statement kind, target type, value type, value form) and per (operator, operand type pair) enumerated by TLC from TypeRules.tla; distinct = distinct program texts",
                  "exhaustive": True, "outcomes": d["outcomes"], "rows_unparsable": nsyntax})
    for i in (100, len(rows) // 2, len(rows) - 50):
        c.sample({"text": rows[i]["text"], "target": rows[i]["target"], "must_diagnose": rows[i]["must"]})
    c.finish()


if __name__ == "__main__":
    main_guard(main)
