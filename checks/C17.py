#!/usr/bin/env python3
"""C17 - analysis is invariant under layout and renaming, one-pass and deterministic.

See checks/anzcommon.py: abstract programs from the TLA+ machine spec of the analyser
(spec/analyzer/Analyzer.tla) are replayed into the real crates and compared with the model's prediction.
"""
import os, sys
sys.path.insert(0, os.path.dirname(os.path.abspath(__file__)))
from anzcommon import *



def variants(text):
    """layout-only variants that treat the occurrences of a bracket DIFFERENTLY: a blank after the k-th '[' only (for every k),
    after all of them, a comment inside the k-th pair, and a line break after every ';'"""
    pos = [i for i, ch in enumerate(text) if ch == "["]
    out = []
    for k in pos:
        out.append(text[:k + 1] + " " + text[k + 1:])
        j = text.index("]", k)
        out.append(text[:j] + " /* w */ " + text[j:])
    if pos:
        out.append(text.replace("[", "[ ").replace("]", " ]"))
    out.append(text.replace("; ", ";\n"))
    return out[:12]


def relayout_typed(c):
    """C17 on typed declarations: the declaration / signature / conversion programs of TypeRules.tla (C08, C09) analysed under
    layout-only variants that change ONE type spelling and leave its twins alone; symbols, diagnostics and graph must not change."""
    r = run_tlc("typerules", "TypeRules", "TypeRules.cfg", workers=1, timeout=900, xss="512m", cache_key="tr", keep_tags={"DECL", "SIG", "LISTING", "ROW", "ARITH"})
    if not r.ok:
        c.tool_error(f"TypeRules failed: {r.error_text} {r.raw_tail[-600:]}")
    texts = sorted({x["text"] for tag in ("DECL", "SIG", "ROW") for x in r.tagged.get(tag, []) if "[" in x["text"] and "\"" not in x["text"]})
    if c.quick:
        rows = [t for t in texts if " x = " in t or "x; x =" in t]
        keep = set(rows[::7])
        texts = [t for t in texts if t not in set(rows) or t in keep]
    ip = os.path.join(c.work, "relayout.ndjson"); op = os.path.join(c.work, "relayout_out.json")
    with open(ip, "w") as fh:
        for t in texts:
            fh.write(json.dumps({"text": t, "variants": variants(t)}) + "\n")
    p = run_harness(["relayout-cases", ip, op], timeout=3000)
    if p.returncode != 0:
        c.tool_error("relayout-cases failed: " + p.stderr[-1500:])
    d = json.load(open(op))
    seen = set()
    for f in d["failures"]:
        key = (f["differs_in"], f["text"].split(";")[0][:12])
        if key in seen:
            continue
        seen.add(key)
        c.report({"kind": "layout_typed", "what": f"a layout-only change of one type spelling changes the {f['differs_in']} of the analysis: {f['text']!r} vs {f['variant']!r}",
                  "site": "", "cause": "", "msg": "", "text": f["text"], "detail": f})
    c.cov["typed_relayout"] = {"texts": d["texts"], "variants_analysed": d["variants"]}
    c.cov["evaluations"] = c.cov.get("evaluations", 0) + d["variants"]


if __name__ == "__main__":
    main_guard(lambda: main_for("C17", "exploration", extra=relayout_typed))
