"""Shared driver for C03, C06, C07, C13, C17 (and the semantic half of C12): TLC explores the machine
spec spec/analyzer/Analyzer.tla (exhaustive BFS for short programs, simulation for long deeply nested
ones), prints every complete abstract program with the model's prediction (symbols, diagnostics in
order, graph skeleton); the harness renders each program under 3 layouts, 2 renamings and every
top-level prefix, analyses them with the real crates and reports the observation."""
import json, os, sys, collections
sys.path.insert(0, os.path.join(os.path.dirname(os.path.abspath(__file__)), "..", "tools"))
from vlib import *

UNI = {"pi_u": "π", "euler_u": "ℇ", "tau_u": "τ"}
C07_KINDS = {"UndefVarError", "UndefGateError", "RedeclarationError"}
C13_KINDS = {"NumGateParamsError", "NumGateQubitsError", "NumDefParamsError", "MutateConstError", "NotInGlobalScopeError",
             "ReturnInGlobalScopeError", "IncompatibleTypesError"}


def ambiguous_else(prog):
    """The instruction list is linear: an `else` is meant for the if statement that was completed last at the current
    level.  When that if has an un-braced body that itself ends in an else-less if (`if (a) if (b) x; else y;`) the
    rendered text means something else (the else binds to the nearest if), so the program is not evaluated.
    Flags per level for the statement completed last: d = ends in an else-less if reachable without crossing a brace,
    e = is an else-less if to which an else can be attached without ambiguity."""
    flags = [[False, False]]
    opened = []   # [kind, braced]
    def complete(d, e):
        flags[-1] = [d, e]
        while opened and not opened[-1][1]:
            close()
    def close():
        kind, braced = opened.pop()
        bd = flags.pop()[0]
        if kind == "if":
            d, e = True, (braced or not bd)
        elif kind in ("else", "while", "for"):
            d, e = (False if braced else bd), False
        else:
            d, e = False, False
        flags[-1] = [d, e]
    for ins in prog:
        op = ins["op"]
        if op == "else":
            if not flags[-1][1]:
                return True
        if op in ("if", "else", "while", "for", "switch", "case", "default", "gate", "def"):
            opened.append([op, ins.get("block", True) is not False]); flags.append([False, False])
        elif op == "close":
            close()
            while opened and not opened[-1][1]:
                close()
        elif op in ("annot",):
            pass
        else:
            complete(False, False)
    return False


def generate(c):
    cases, stats = generate_all(c)
    kept = [x for x in cases if not ambiguous_else(x["prog"])]
    stats["skipped_ambiguous_else"] = len(cases) - len(kept)
    return kept, stats


def generate_all(c):
    r = run_tlc("analyzer", "MCAnalyzer", "MCAnalyzer_bfs.cfg", workers=8, timeout=2400, xss="512m", cache_key="bfs", keep_tags={"CASE"}, coverage=False)
    if not r.ok:
        c.tool_error(f"Analyzer BFS failed: {r.violated} {r.error_text} {r.raw_tail[-800:]}")
    cases = list(r.tagged.get("CASE", []))
    stats = {"bfs_states": r.distinct, "bfs_programs": len(cases)}
    f = run_tlc("analyzer", "MCAnalyzer", "MCAnalyzer_std.cfg", workers=8, timeout=2400, xss="512m", cache_key="std", keep_tags={"CASE"}, coverage=False)
    if not f.ok:
        c.tool_error(f"Analyzer focus family (std collisions) failed: {f.violated} {f.error_text} {f.raw_tail[-800:]}")
    focus, seenp = [], set()
    for x in f.tagged.get("CASE", []):
        key = json.dumps(x["prog"], sort_keys=True)
        if key not in seenp and any(i["op"] == "std" for i in x["prog"]):
            seenp.add(key); focus.append(x)
    cases += focus
    stats["focus_std_programs"] = len(focus)
    w = run_tlc("analyzer", "MCAnalyzer", "MCAnalyzer_switch.cfg", workers=8, timeout=2400, xss="512m", cache_key="switch", keep_tags={"CASE"}, coverage=False)
    if not w.ok:
        c.tool_error(f"Analyzer focus family (switch) failed: {w.violated} {w.error_text} {w.raw_tail[-800:]}")
    sw, seenw = [], set()
    for x in w.tagged.get("CASE", []):
        key = json.dumps(x["prog"], sort_keys=True)
        if key not in seenw and any(i["op"] == "switch" for i in x["prog"]):
            seenw.add(key); sw.append(x)
    if c.quick and len(sw) > 12000:      # quick tier: a stride sample of the family
        sw = sw[::(len(sw) // 12000 + 1)]
    cases += sw
    stats["focus_switch_programs"] = len(sw)
    # scoping of braced and un-braced bodies: every program of <= 5 (thorough 6) statements over decl / use / if / else / while / for
    sc = run_tlc("analyzer", "MCAnalyzer", "MCAnalyzer_scope.cfg" if c.quick else "MCAnalyzer_scope6.cfg", workers=8, timeout=2400, xss="512m", cache_key="scope",
                 keep_tags={"CASE"}, coverage=False)
    if not sc.ok:
        c.tool_error(f"Analyzer focus family (scope) failed: {sc.violated} {sc.error_text} {sc.raw_tail[-800:]}")
    scp, seens = [], set()
    for x in sc.tagged.get("CASE", []):
        key = json.dumps(x["prog"], sort_keys=True)
        if key not in seens and any(i["op"] in ("if", "while", "for") for i in x["prog"]):
            seens.add(key); scp.append(x)
    cases += scp
    stats["focus_scope_programs"] = len(scp)
    nsim = 80 if c.quick else 2000
    # the simulation is deterministic for a seed: cached so that the five analyser checks share one TLC run per (tier, seed)
    s = run_tlc("analyzer", "MCAnalyzer", "MCAnalyzer_sim.cfg", workers=1, timeout=7200, xss="512m", simulate=nsim, depth=14, seed=c.seed, keep_tags={"CASE"},
                cache_key=f"sim-{nsim}-{c.seed}")
    if s.timed_out or s.violated:
        c.tool_error(f"Analyzer simulation failed: {s.violated} {s.error_text} {s.raw_tail[-600:]}")
    sim = s.tagged.get("CASE", [])
    stats["sim_programs"] = len(sim)
    stats["sim_states"] = s.generated
    return cases + sim, stats


def refs_of(sk, out):
    """all symbol references in a skeleton, in order (numbers or 'Err')"""
    if isinstance(sk, list):
        if sk and sk[0] == "Identifier":
            out.append(sk[1]); return
        if sk and sk[0] == "Indexed":
            out.append(sk[1]); refs_of(sk[2], out); return
        if sk and sk[0] in ("DeclareClassical", "DeclareQuantum", "GateCall", "For", "GateDefinition", "DefStmt"):
            out.append(("decl:" + sk[0], json.dumps(sk[1])))
            if sk[0] in ("GateDefinition",):
                out.append(("params", json.dumps(sk[2]), json.dumps(sk[3])))
            if sk[0] == "DefStmt":
                out.append(("params", json.dumps(sk[2])))
        for x in sk[1:] if sk and isinstance(sk[0], str) else sk:
            refs_of(x, out)


def shape_of(sk):
    """skeleton with symbol references erased (structure, order, kinds only)"""
    if isinstance(sk, list):
        return [shape_of(x) for x in sk]
    if isinstance(sk, int) or sk == "Err":
        return "#"
    return sk


def run(c):
    build_harness()
    cases, stats = generate(c)
    cp = os.path.join(c.work, "anz.ndjson")
    with open(cp, "w") as fh:
        for x in cases:
            fh.write(json.dumps(x) + "\n")
    op = os.path.join(c.work, "anzout.ndjson")
    p = run_harness(["anz-cases", cp, op], timeout=3000)
    if p.returncode != 0:
        c.tool_error("anz-cases failed: " + p.stderr[-1500:])
    outs = {}
    for ln in open(op):
        d = json.loads(ln); outs[d["i"]] = d
    return cases, outs, stats


def site_of(panic):
    if not panic:
        return ""
    for fr in panic.get("stack", []):
        if fr.startswith("oq3_") and "::util::" not in fr:
            return fr
    return panic.get("func", "")


def compare(case, o):
    """returns list of (property, kind, what, detail)"""
    res = []
    ob = o["obs"]
    if "panic" in ob:
        res.append(("C03", "panic", "semantic analysis panicked in " + site_of(ob["panic"]), {"site": site_of(ob["panic"]), "msg": ob["panic"].get("msg", ""), "panic": ob["panic"]}))
        return res
    if ob["any_syntax_errors"]:
        res.append(("TOOL", "syntax", "generated program does not parse", {"errors": ob["syntax_errors"][:3]}))
        return res
    if ob["scope_depth"] != 1:
        res.append(("C03", "scope_depth", "symbol table left with more than the global scope open after analysis", {"depth": ob["scope_depth"]}))
    exp_syms = [{"name": UNI.get(s["name"], s["name"]), "type": s["type"]} for s in case["syms"]]
    # C07: resolution map, symbol names, Undef*/Redeclaration multiset
    er, orf = [], []
    refs_of(case["skel"], er); refs_of(ob["skel"], orf)
    if [s["name"] for s in exp_syms] != [s["name"] for s in ob["symbols"]]:
        res.append(("C07", "symbols", "symbols created differ from the declarations of the program", {"expected": [s["name"] for s in exp_syms][7:], "observed": [s["name"] for s in ob["symbols"]][7:]}))
    elif json.dumps(er) != json.dumps(orf):
        res.append(("C07", "resolution", "an identifier use or declaration refers to a different symbol than lexical scoping prescribes", {"expected": er, "observed": orf}))
    # C07: counts required by Scoping (R, read from the program alone): undefined uses, duplicate declarations, symbols created
    oc = collections.Counter(ob["diags"])
    n_undef = oc["UndefVarError"] + oc["UndefGateError"]
    if "undef" in case and (n_undef != case["undef"] or oc["RedeclarationError"] != case["redecl"] or len(ob["symbols"]) != case["nsyms"]):
        res.append(("C07", "diagnostics", "undefined / redeclaration diagnostics or number of symbols differ from what lexical scoping requires",
                    {"required": {"undefined": case["undef"], "redeclarations": case["redecl"], "symbols": case["nsyms"]},
                     "observed": {"undefined": n_undef, "redeclarations": oc["RedeclarationError"], "symbols": len(ob["symbols"])}}))
    # C09 (part): declared types recorded
    if [s["type"] for s in exp_syms] != [s["type"] for s in ob["symbols"]] and not any(r[0] == "C07" for r in res):
        res.append(("C09", "types", "symbol table records a different type than declared", {"expected": exp_syms[7:], "observed": ob["symbols"][7:]}))
    # C13: UsageRules (R) gives for every kind the interval of required diagnostics; the machine spec's exact multiset is drift detection only
    oc13 = collections.Counter(k for k in ob["diags"] if k in C13_KINDS)
    if "need" in case:
        bad = {k: {"required": [v["min"], v["max"]], "observed": oc13.get(k, 0)} for k, v in case["need"].items() if not (v["min"] <= oc13.get(k, 0) <= v["max"])}
        extra = {k: n for k, n in oc13.items() if k not in case["need"]}
        if bad or extra:
            res.append(("C13", "diagnostics", "usage-rule diagnostics are not those the rules require", {"out_of_interval": bad, "unexpected_kinds": extra}))
    else:
        ec = collections.Counter(k for k in case["diags"] if k in C13_KINDS)
        if ec != oc13:
            res.append(("C13", "diagnostics", "usage-rule diagnostics differ", {"expected": dict(ec), "observed": dict(oc13)}))
    # C06: structure, order, kinds
    if shape_of(case["skel"]) != shape_of(ob["skel"]):
        dev = json.loads(json.dumps(shape_of(case["skel"])).replace('"Power"', '"Concatenation"'))   # Dev_PowIsConcat
        if dev == shape_of(ob["skel"]):
            res.append(("C06", "operator", "the power operator '**' is translated to the concatenation operator", {"cause": "pow_is_concat", "expected": case["skel"], "observed": ob["skel"]}))
        else:
            res.append(("C06", "structure", "graph statements / nesting / order differ from the program", {"expected": case["skel"], "observed": ob["skel"]}))
    # C12 semantic spans
    if not ob["sem_spans_ok"]["ok"]:
        res.append(("C12", "span", "semantic diagnostic range is not the range of a node of the tree", ob["sem_spans_ok"]))
    # C17
    for f, what in (("layout_equal", "result changes with layout"), ("deterministic", "analysing the same text twice gives different results"),
                    ("rename_equal", "result changes under consistent renaming"), ("prefix_ok", "result for a prefix is not a prefix of the result")):
        if not o[f]:
            res.append(("C17", f, what, {"variant_text": o.get(f.split("_")[0] + "_text", "")}))
    # model drift (order of diagnostics, counts inside the freedom R leaves, other kinds): informational
    if case["diags"] != ob["diags"] and not res:
        res.append(("DRIFT", "diag_order", "diagnostics differ from the machine spec in order or in kinds no property constrains", {"expected": case["diags"], "observed": ob["diags"]}))
    return res


def main_for(prop, doc_level="exploration", extra=None):
    c = Check(prop)
    c.level = doc_level
    c.assumptions += ["abstract programs over the names {a, b, h, U, pi} in every role; expressions are literals, identifier uses and measurements",
                      "exhaustive for programs of <= 2 instructions over {a, h}; simulated (seeded) for programs of up to 12 instructions, nesting <= 5",
                      "the machine spec Analyzer.tla is the oracle; it agreed with the unchanged tree on every explored program when this check was built"]
    cases, outs, stats = run(c)
    seen = set(); ndrift = 0; tool = 0
    for i, case in enumerate(cases):
        for (p, kind, what, detail) in compare(case, outs[i]):
            if p == "DRIFT":
                ndrift += 1
                if len(c.drift) < 5:
                    c.drift.append({"text": outs[i]["text"], **detail})
                continue
            if p == "TOOL":
                tool += 1
                continue
            if p != prop:
                continue
            key = (kind, detail.get("site", ""), what, detail.get("cause", ""))
            if key in seen:
                continue
            seen.add(key)
            c.report({"kind": kind, "what": what, "site": detail.get("site", ""), "cause": detail.get("cause", ""), "msg": detail.get("msg", ""), "text": outs[i]["text"], "detail": detail})
    if tool:
        c.notes.append(f"{tool} generated programs did not parse (renderer / grammar limitation), skipped")
    if ndrift:
        c.notes.append(f"{ndrift} programs: diagnostics differ from the machine spec only in order / unconstrained kinds (model drift, not a violation)")
    c.cov.update({"evaluations": len(cases) * 8, "distinct_nontrivial": len({json.dumps(x["prog"]) for x in cases}),
                  "rule": "one abstract program per complete behaviour of Analyzer.tla (BFS: all programs of <= 2 instructions; simulation: seeded long programs); each rendered under 3 layouts, 2 renamings, all top-level prefixes, analysed twice; distinct = distinct instruction sequences",
                  "states": stats["bfs_states"], "transitions": stats["bfs_states"] + stats["sim_states"], "traces_validated_against_impl": len(cases),
                  "skipped_unparsable": tool, **stats})
    for i in (3, len(cases) // 2, len(cases) - 2):
        c.sample({"program": outs[i]["text"], "predicted_diagnostics": cases[i]["diags"]})
    if extra:
        extra(c)
    c.finish()
