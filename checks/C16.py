#!/usr/bin/env python3
"""C16 - statement parsing is compositional: context never changes a statement's parse.

GrammarCases!SeqCases: every ordered pair (thorough: triple) of 38 pool statements (all statement kinds
incl. the empty statement) in every block context (file, gate, def, if, else, while, for, case, default,
anonymous block).  The harness parses each statement alone in the context and the concatenation; if all
parse cleanly alone, the concatenation must parse cleanly and its statement list (kind, text) must be the
concatenation of the individual lists.
"""
import os, sys
sys.path.insert(0, os.path.dirname(os.path.abspath(__file__)))
from gramcommon import *


def main():
    c = Check("C16")
    c.level = "model_checking"
    c.assumptions += ["cases whose premise fails (a statement that does not parse cleanly alone in that context) are skipped and counted"]
    build_harness()
    cases, seqs, counts = generate(c)
    out = run_seqs(c, seqs)
    seen = set()
    # A triple whose adjacent pair already fails (in the same context) shows nothing new: the pair is reported (or is a known finding)
    # and the way two such deviations combine in a triple has no cause of its own.  Triples are reported only if both adjacent pairs are clean.
    bad_pairs = {(f["ctx"], tuple(f["idx"])) for f in out["failures"] if len(f.get("idx") or []) == 2}
    explained = 0
    for f in sorted(out["failures"], key=lambda f: len(f.get("idx") or [])):
        ix = f.get("idx") or []
        if len(ix) == 3 and ((f["ctx"], (ix[0], ix[1])) in bad_pairs or (f["ctx"], (ix[1], ix[2])) in bad_pairs):
            explained += 1
            continue
        key = (f["kind"], f.get("cause"), f.get("ctx") if f.get("cause") in ("different", "diagnostics", "merged") else "")
        if key in seen:
            continue
        seen.add(key)
        site = (f.get("panic") or {}).get("func", "")
        c.report({"kind": f["kind"], "cause": f.get("cause", ""), "what": f["what"] + f" [{f.get('cause')}; context {f['ctx']}; {f['kinds']}]", "text": f.get("text"),
                  "ctx": f["ctx"], "kinds": f["kinds"], "expected": f.get("expected"), "observed": f.get("observed"), "errors": f.get("errors"), "site": site})
    c.cov.update({"states": len(seqs), "transitions": len(seqs), "traces_validated_against_impl": out["cases"] - out["premise_not_met"], "exhaustive": True,
                  "sequences": len(seqs), "premise_not_met": out["premise_not_met"], "triples_explained_by_a_failing_pair": explained})
    for i in (3, len(seqs) // 2, len(seqs) - 5):
        c.sample({"ctx": seqs[i]["ctx"], "statements": [" ".join(t) for t in seqs[i]["items"]]})
    c.finish()


if __name__ == "__main__":
    main_guard(main)
