"""Shared driver for C01, C02, C12: robustness corpus + exhaustive token sequences through both parse
entry points; TreeTrace validation by TLC of a stride sample."""
import json, os, sys
sys.path.insert(0, os.path.join(os.path.dirname(os.path.abspath(__file__)), "..", "tools"))
from vlib import *
import corpus as corpus_mod


def site_of(panic):
    if not panic:
        return ""
    for fr in panic.get("stack", []):
        if not fr.startswith("oq3_parser::parser::"):
            return fr
    return panic.get("func", "")


def run(c, props):
    """Run the shared exploration; report violations whose 'prop' is in props. Returns stats dict."""
    build_harness()
    texts = corpus_mod.collect()
    cp = os.path.join(c.work, "corpus.json"); json.dump(texts, open(cp, "w"))
    nm, nr = (5000, 5000) if c.quick else (150000, 150000)
    ev = os.path.join(c.work, "treeev.ndjson"); ro = os.path.join(c.work, "treerec.json")
    p = run_harness(["parse-record", c.seed, cp, nm, nr, ev, ro], env={"TREE_TRACE_SAMPLE": "250" if c.quick else "1500"}, timeout=3000)
    if p.returncode != 0:
        c.tool_error("parse-record failed: " + p.stderr[-1500:])
    rec = json.load(open(ro))
    # exhaustive token sequences
    la, lj, lt = (3, 4, 3) if c.quick else (4, 5, 4)
    to = os.path.join(c.work, "tokens.json")
    p = run_harness(["parse-tokens", la, lj, lt, to], timeout=7200)
    if p.returncode != 0:
        c.tool_error("parse-tokens failed: " + p.stderr[-1500:])
    tok = json.load(open(to))
    seen = set()
    for f in sorted(rec["failures"] + tok["failures"], key=lambda f: len(f.get("text", ""))):
        if f.get("prop") not in props:
            continue
        site = site_of(f.get("panic"))
        key = (f["prop"], f["kind"], site, f["what"][:40])
        if key in seen:
            continue
        seen.add(key)
        c.report({"kind": f["kind"], "what": f["what"] + (f" in {site}" if site else ""), "site": site, "text": f.get("text"),
                  "entry": f.get("entry"), "panic": f.get("panic"), "detail": {k: v for k, v in f.items() if k not in ("text", "panic", "key")},
                  "msg": (f.get("panic") or {}).get("msg", "")})
    # TLC trace validation of the recorded sample
    tr = run_tlc("treetrace", "TreeTrace", "TreeTrace.cfg", workers=1, timeout=2400, dfs=True, xss="1g", env={"TRACE": ev})
    rej = tr.tagged.get("REJECT")
    if rej:
        line = rej[0]["line"]; clauses = rej[0].get("clauses", [])
        evs = open(ev).read().split("\n")
        e = json.loads(evs[line - 1]) if line - 1 < len(evs) else {}
        owner = {"Returns": "C01", "SpansValid": "C12", "ErrorHasDiag": "C12", "Lossless": "C02", "TreeIffLexClean": "C11"}
        if any(owner.get(x) in props for x in clauses):
            c.report({"kind": "trace", "what": f"recorded parse observation rejected by TreeTrace: {clauses}", "clauses": clauses, "line": line,
                      "text": e.get("text"), "site": site_of(e.get("panic")),
                      "event": {k: e.get(k) for k in ("ev", "entry", "len", "have_tree", "diags", "panic")}})
    elif not tr.ok:
        c.tool_error(f"TreeTrace validation did not complete: {tr.error_text} {tr.raw_tail[-600:]}")
    stats = {"robustness_inputs": rec["inputs"], "inputs_without_any_violation": rec["clean"], "max_input_len": rec["max_len"],
             "token_sequences_as_Input": tok["input_sequences"], "token_sequences_as_text": tok["texts"], "token_alphabet": tok["alphabet"],
             "max_token_seq_len": {"Input_all_joint_masks": la, "Input_all_joint": lj, "text": lt},
             "tlc_trace_events": rec["recorded"], "tlc_states": tr.distinct, "corpus_texts": len(texts)}
    c.cov.update({"states": tr.distinct, "transitions": tr.generated,
                  "traces_validated_against_impl": rec["recorded"], "exhaustive": True, **stats})
    for s in rec["samples"][:3]:
        c.sample({"text": s[:160]})
    return stats
