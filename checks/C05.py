#!/usr/bin/env python3
"""C05 - the AST mirrors the program's derivation: precedence, associativity, roles.

Same cases as C04 (RefGrammar / GrammarCases).  For every accepted rendering the harness applies the
TYPED ACCESSORS of oq3_syntax::ast to the real tree and projects it to RefGrammar's abstract-syntax
vocabulary; the projection must equal the abstract tree the case was printed from (all 19x19x2
operator pairs under minimal and redundant parentheses, unary and postfix interactions, every
statement's roles in block / single-statement combinations; thorough: all 19^3 triples).
"""
import os, sys
sys.path.insert(0, os.path.dirname(os.path.abspath(__file__)))
from gramcommon import *


def main():
    c = Check("C05")
    c.level = "model_checking"
    c.assumptions += ["parentheses are transparent in the skeleton; compound assignment is accepted as either an assignment node or a binary expression with an assignment operator",
                      "the typed accessors are the observation: an accessor returning the wrong constituent is a mismatch"]
    build_harness()
    cases, seqs, counts = generate(c)
    out = run_cases(c, cases)
    seen = set()
    for f in out["failures"]:
        if f["prop"] != "C05":
            continue
        fam = family(f["sig"])
        key = (f["kind"], fam)
        if key in seen:
            continue
        seen.add(key)
        c.report({"kind": f["kind"], "family": fam, "sig": f["sig"], "what": f["what"] + f" [{f['sig']}]", "text": f["text"], "detail": f["detail"]})
    # design level: the composed machine specs (Lexer, TokenTable, ToInput, Grammar, event::process, SyntaxTree) with the model of the
    # typed-AST accessors (AstProj.tla) map every reference EXPRESSION case to the abstract expression it was printed from (C05e_Model)
    gr = run_tlc("gramrefine", "GramRefine", "GramRefine.cfg" if c.quick else "GramRefine_thorough.cfg", workers=8, timeout=6000, xss="1g", xmx="12g",
                 lib=["grammar", "lexer", "pgrammar", "events"], cache_key="v1", keep_tags=set())
    if not gr.ok and c.violations:
        c.notes.append(f"GramRefine also fails: {gr.violated or gr.error_text}")
    elif not gr.ok:
        c.tool_error(f"GramRefine: the front-end machine specs do not reproduce the reference expressions: {gr.violated or gr.error_text} {gr.raw_tail[-800:]}")
    c.cov["design_level"] = {"module": "GramRefine", "invariant": "C05e_Model (expression families: precedence, associativity, unary / postfix / cast / index / call nesting)", "programs": gr.distinct}
    c.cov.update({"states": len(cases) + gr.distinct, "transitions": out["runs"], "traces_validated_against_impl": out["runs"], "exhaustive": True,
                  "cases": len(cases), "renderings_parsed": out["runs"], "families": counts})
    for i in (11, len(cases) // 3, len(cases) - 9):
        c.sample({"sig": cases[i]["sig"], "tokens": " ".join(cases[i]["toks"])[:160], "skeleton": cases[i]["sk"]})
    c.finish()


if __name__ == "__main__":
    main_guard(main)
