#!/usr/bin/env python3
"""C12 - diagnostics carry valid spans; a diagnostic-free tree has no error nodes.

Semantic diagnostics: (a) the programs generated from the analyser machine spec (Analyzer.tla, see checks/anzcommon.py) are
analysed and every semantic diagnostic must be the range of a node of the tree; (b) the include arrangements generated from
Includes.tla (see checks/C18.py) are analysed and every diagnostic of every list - main text, each included file, files that
cannot be read - must be the range of a node of THAT list's file.

Both public parse entry points are driven over (i) every token sequence up to a length over the full
91-kind token alphabet, as oq3_parser::Input (all jointness patterns) and rendered to text, (ii) the
robustness corpus (repository texts, mutations, random UTF-8, token soup, deep nesting).  Hooks turn a
non-terminating grammar loop into an attributable panic.  A stride sample of the recorded parse
observations (tree rows, diagnostics) is validated by TLC against TreeTrace.tla / TreeShape.tla.
"""
import os, sys
sys.path.insert(0, os.path.dirname(os.path.abspath(__file__)))
from parsecommon import *


def semantic_spans(c):
    import anzcommon
    # (a) analyser programs
    cases, outs, stats = anzcommon.run(c)
    seen = set(); n = 0
    for i, case in enumerate(cases):
        for (p, kind, what, detail) in anzcommon.compare(case, outs[i]):
            if p != "C12":
                continue
            n += 1
            if (kind, what) in seen:
                continue
            seen.add((kind, what))
            c.report({"kind": "sem_" + kind, "what": what, "text": outs[i]["text"], "detail": detail, "site": ""})
    # (b) include arrangements (a stride sample of the arrangements C18 replays)
    arr = []
    for cfg, stride in (("Includes.cfg", 160 if c.quick else 8), ("Includes2.cfg", 160 if c.quick else 8)):
        r = run_tlc("includes", "Includes", cfg, workers=8, timeout=2400, xss="512m", cache_key="inc", keep_tags={"CASE"}, xmx="16g")
        if not r.ok:
            c.tool_error(f"Includes {cfg}: {r.violated} {r.error_text}")
        cs = r.tagged.get("CASE", [])
        arr += cs[(c.seed + 7) % stride::stride]
    cp = os.path.join(c.work, "inc12.ndjson")
    with open(cp, "w") as fh:
        for x in arr:
            fh.write(json.dumps(x) + "\n")
    wd = os.path.join(c.work, "tree12"); os.makedirs(wd, exist_ok=True)
    op = os.path.join(c.work, "inc12out.json")
    p = run_harness(["inc-cases", cp, wd, op], timeout=6000)
    if p.returncode != 0:
        c.tool_error("inc-cases failed: " + p.stderr[-1500:])
    d = json.load(open(op))
    for f in d["failures"]:
        if f.get("prop") != "C12" or ("inc", f["what"]) in seen:
            continue
        seen.add(("inc", f["what"]))
        c.report({"kind": f["kind"], "what": f["what"], "main": f["main"], "cfg": f["cfg"], "detail": f["detail"], "site": ""})
    c.cov["semantic_spans"] = {"analyser_programs": len(cases), "include_arrangements": d["runs"]}
    c.cov["traces_validated_against_impl"] = c.cov.get("traces_validated_against_impl", 0) + len(cases) + d["runs"]


def main():
    c = Check("C12")
    c.level = "model_checking"
    c.assumptions += ["bounds (DESIGN 5/C01): random inputs <= 4 KiB, nesting <= 64, token sequences <= 5 (thorough) / <= 4 (quick) as Input, <= 4 / <= 3 as text",
                      "rowan and the Unicode tables are trusted", "linear work is measured as parser events <= 64 * (tokens + 1)"]
    run(c, {"C12"})
    semantic_spans(c)
    c.finish()


if __name__ == "__main__":
    main_guard(main)
