#!/usr/bin/env python3
"""C11 - malformed lexemes are always diagnosed and errors gate the later stages.

 (a) lexical half: Lexemes.tla lists the malformed classes of C11; TLC generates every ordered pair
     (malformed lexeme in either position, every admissible separator, incl. end of input) plus
     simulated longer sequences with up to 2 malformed lexemes; the real token table must carry a
     diagnostic on a token overlapping each malformed lexeme.
 (b) gating half: Pipeline.tla (M, one action per stage) is model-checked against Gating.tla (R) for
     every include chain of depth <= 4 with one fault class per file; each of the 780 configurations
     is materialised on disk (3 textual variants) and pushed through both entry points; the observed
     stage outcomes must equal Gating's.
"""
import json, os, sys
sys.path.insert(0, os.path.dirname(os.path.abspath(__file__)))
from lexgen import *


def main():
    c = Check("C11")
    c.level = "model_checking"
    c.assumptions += ["malformed classes = those enumerated in C11 (unterminated string / bit string / block comment, base prefix without digits, exponent without digits, bad version header, identifier with forbidden characters)",
                      "fault snippets per class are fixed texts (3-4 variants each); include chains are linear, depth <= 4"]
    build_harness()
    # (a)
    pool, seps, cases, stats = generate(c, 4000 if c.quick else 60000)
    bad = [x for x in cases if any(pool[e["l"] - 1]["bad"] for e in x)]
    out = replay(c, pool, seps, bad)
    seen = set()
    for f in out["failures"]:
        if f["kind"] not in ("undiagnosed", "panic", "partition"):
            continue
        key = (f["kind"], f.get("lexeme"))
        if key in seen:
            continue
        seen.add(key)
        c.report({"kind": f["kind"], "lexeme": f.get("lexeme", ""), "cls": f.get("cls", ""),
                  "what": f["what"] + ": " + repr(f.get("lexeme")), "text": f["text"], "lexemes": f.get("lexemes"), "panic": f.get("panic")})
    # (b)
    r = run_tlc("pipeline", "Pipeline", "Pipeline.cfg", workers=4, timeout=600, coverage=True, keep_tags={"CASE"}, cache_key="gating")
    if not r.ok:
        c.tool_error(f"Pipeline model check failed (M does not satisfy Gating?): {r.violated} {r.error_text} {r.raw_tail[-800:]}")
    for act in ("Lex", "Parse", "Validate", "Includes", "Gate", "Analyze"):
        if r.coverage and r.coverage.get(act, 0) == 0:
            c.tool_error(f"vacuous TLC run: action {act} never taken")
    gcases = r.tagged["CASE"]
    gp = os.path.join(c.work, "gating.ndjson")
    with open(gp, "w") as fh:
        for x in gcases:
            fh.write(json.dumps(x) + "\n")
    gd = os.path.join(c.work, "gt"); os.makedirs(gd, exist_ok=True)
    go = os.path.join(c.work, "gout.json")
    p = run_harness(["gating-cases", gp, gd, 3 if c.quick else 12, go])
    if p.returncode != 0:
        c.tool_error("gating-cases failed: " + p.stderr[-2000:])
    g = json.load(open(go))
    for f in g["failures"][:10]:
        site = (f.get("panic") or {}).get("func", "")
        c.report({"kind": f["kind"], "what": f["what"], "chain": f["chain"], "entry": f["entry"], "required": f["required"],
                  "observed": f["observed"], "files": f["files"], "site": site, "panic": f.get("panic")})
    mr = model_refines(c)
    c.cov["design_level"] = mr
    c.cov.update({"states": r.distinct + stats["pairs_states"] + mr["states"], "transitions": r.generated + stats["pairs_states"],
                  "traces_validated_against_impl": out["cases"] + g["runs"], "exhaustive": True,
                  "malformed_cases": len(bad), "gating_configurations": len(gcases), "gating_runs": g["runs"],
                  "pipeline_states": r.distinct, **stats})
    c.sample({"malformed_case": render(pool, seps, bad[len(bad) // 3])})
    c.sample({"gating_case": gcases[len(gcases) // 2]})
    c.finish()


if __name__ == "__main__":
    main_guard(main)
