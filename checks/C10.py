#!/usr/bin/env python3
"""C10 - literal values reach the semantic graph exactly.

Literals.tla (R) enumerates literal spellings (4 radices x prefix case x underscore placements x
magnitudes around every width boundary up to 2^128-1, all float shapes, 6 units and `im` with and
without blank, bit strings up to 256 bits, leading minus, booleans) together with their canonical
value (digit string in the literal's own radix / canonical float text / bits and width).  TLC prints
them; the harness analyses `<literal>;`, reads the literal in the semantic graph and through the AST
accessors and compares (floats: str::parse::<f64> of the canonical text is the trusted oracle).
"""
import json, os, sys
sys.path.insert(0, os.path.join(os.path.dirname(os.path.abspath(__file__)), "..", "tools"))
from vlib import *


def main():
    c = Check("C10")
    c.level = "exploration"
    c.assumptions += ["nearest-double rounding is decided by Rust's str::parse::<f64> on the canonical text (trusted oracle, DESIGN section 9)",
                      "bit-string values are compared after removing underscores"]
    build_harness()
    r = run_tlc("literals", "LiteralsGen", "LiteralsGen.cfg", workers=1, timeout=600, xss="1g", cache_key="lit", keep_tags={"CASE", "COUNT"})
    if not r.ok:
        c.tool_error(f"LiteralsGen failed: {r.error_text} {r.raw_tail[-600:]}")
    cases = r.tagged["CASE"]
    cp = os.path.join(c.work, "lit.ndjson")
    with open(cp, "w") as fh:
        for x in cases:
            fh.write(json.dumps(x) + "\n")
    op = os.path.join(c.work, "litout.json")
    p = run_harness(["lit-cases", cp, op])
    if p.returncode != 0:
        c.tool_error("lit-cases failed: " + p.stderr[-1500:])
    d = json.load(open(op))
    seen = set()
    for f in d["failures"]:
        site = ((f.get("detail") or {}).get("panic") or {}).get("func", "")
        key = (f["kind"], f["cls"], f["radix"], site)
        if key in seen:
            continue
        seen.add(key)
        c.report({"kind": f["kind"], "cls": f["cls"], "what": f["what"] + f": {f['text']!r} (expected {f['canon']})", "text": f["text"],
                  "canon": f["canon"], "detail": f["detail"], "site": site})
    counts = r.tagged.get("COUNT", [{}])[0]
    c.cov.update({"evaluations": d["cases"], "distinct_nontrivial": len({x["text"] + str(x["neg"]) for x in cases}),
                  "rule": "one case per distinct (spelling, sign) enumerated by TLC from Literals.tla; non-trivial = every case (each has a distinct source text)",
                  "by_class": counts, "exhaustive": True})
    for i in (3, len(cases) // 2, len(cases) - 5):
        c.sample(cases[i])
    c.finish()


if __name__ == "__main__":
    main_guard(main)
