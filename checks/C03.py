#!/usr/bin/env python3
"""C03 - semantic analysis returns normally on every syntax-error-free program (no panic; only the global scope open afterwards).

See checks/anzcommon.py: abstract programs from the TLA+ machine spec of the analyser
(spec/analyzer/Analyzer.tla) are replayed into the real crates and compared with the model's prediction.

Wider grammar (the second and third clause of C03's quantifier): the real analysis is run on every corpus /
mutated / token-soup text and every TLC-generated program of the reference grammar (RefGrammar/GrammarCases:
all operators, literals, blocks, arrays, statement kinds) that parses without any diagnostic.  A panic is a
violation (attributed to its site); the symbol-table operations the analysis performs are recorded inside
SymbolTable and validated by TLC against AnalyzerSymTrace.tla, whose "done" step requires that only the global
scope is open when the analysis returns (see checks/symtrace.py).
"""
import os, sys
sys.path.insert(0, os.path.dirname(os.path.abspath(__file__)))
from anzcommon import *
import symtrace


def wide(c):
    summ, rej, tr = symtrace.record_and_validate(c)
    seen = set()
    for p in sorted(summ["panics"], key=lambda p: len(p["text"])):
        func, msg, src = symtrace.panic_key(p)
        if (func, msg, src) in seen:
            continue
        seen.add((func, msg, src))
        c.report({"kind": "panic_wide", "what": f"semantic analysis panicked on a program that parses without diagnostics: {msg[:120]} [{src[:100]}]", "site": func, "msg": msg, "src": src, "text": p["text"], "panic": p["panic"]})
    if rej:
        if rej["ev"].get("ev") == "done" or rej["ev"].get("ev") == "exit":
            c.report({"kind": "scope_discipline", "what": "the analysis left a scope open (or exited the global scope): AnalyzerSymTrace rejects the record", "site": "", "msg": json.dumps(rej["ev"]), "text": rej["text"], "state": rej["state"]})
        else:
            c.notes.append("AnalyzerSymTrace rejected a symbol-table answer (C19's concern, reported there): " + json.dumps(rej["ev"])[:200])
    c.cov["wide_grammar"] = {"inputs": summ["inputs"], "syntax_clean_programs_analysed": summ["analysed"], "skipped_with_syntax_diagnostics": summ["skipped_syntax"],
                             "panicking_programs": len(summ["panics"]), "distinct_panic_sites": len(seen),
                             "symtab_records_validated": (tr.distinct - 1) if tr.ok else 0}
    c.cov["traces_validated_against_impl"] = c.cov.get("traces_validated_against_impl", 0) + summ["analysed"]
    c.assumptions.append("wider grammar: corpus + mutations + token soup that parse cleanly, and every GrammarCases program; texts with include other than stdgates.inc are left to C18; analyses with > 400 symbol-table operations are not recorded")

if __name__ == "__main__":
    main_guard(lambda: main_for("C03", "model_checking", extra=wide))
