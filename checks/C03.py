#!/usr/bin/env python3
"""C03 - semantic analysis returns normally on every syntax-error-free program (no panic; only the global scope open afterwards).

See checks/anzcommon.py: abstract programs from the TLA+ machine spec of the analyser
(spec/analyzer/Analyzer.tla) are replayed into the real crates and compared with the model's prediction.
"""
import os, sys
sys.path.insert(0, os.path.dirname(os.path.abspath(__file__)))
from anzcommon import *

if __name__ == "__main__":
    main_guard(lambda: main_for("C03", "model_checking"))
