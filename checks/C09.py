#!/usr/bin/env python3
"""C09 - declared symbols carry exactly the declared type.

TypeRules.tla (R) enumerates declaration forms (plain, const, with initializer, qubit / bit registers,
input/output, loop variable, subroutine parameters, const-identifier designators, four inner scope kinds,
gate and subroutine signatures up to 4 x 4, return types) x scalar types x widths across [1, 2^33] as
digit strings (whether a width fits 32 bits is decided on the string), plus designators that are negative,
non-integer, non-constant or expressions.  TLC prints each case with the type the table must record (or
'must be diagnosed'); the harness analyses the text and compares the recorded type, parameter types and
the gate listing.
"""
import json, os, sys
sys.path.insert(0, os.path.join(os.path.dirname(os.path.abspath(__file__)), "..", "tools"))
from vlib import *


def main():
    c = Check("C09")
    c.level = "exploration"
    c.assumptions += ["the Debug rendering of types::Type is the observation vocabulary", "a width that does not fit must be diagnosed; a different recorded number is a violation only when no diagnostic accompanies it"]
    build_harness()
    r = run_tlc("typerules", "TypeRules", "TypeRules.cfg", workers=1, timeout=900, xss="512m", cache_key="tr", keep_tags={"DECL", "SIG", "LISTING", "ROW", "ARITH"})
    if not r.ok:
        c.tool_error(f"TypeRules failed: {r.error_text} {r.raw_tail[-600:]}")
    decls = r.tagged.get("DECL", []); sigs = r.tagged.get("SIG", [])
    lists = r.tagged.get("LISTING", [])
    dp = os.path.join(c.work, "decl.ndjson"); sp = os.path.join(c.work, "sig.ndjson"); op = os.path.join(c.work, "declout.json"); lp = os.path.join(c.work, "listing.ndjson")
    open(dp, "w").write("\n".join(json.dumps(x) for x in decls)); open(sp, "w").write("\n".join(json.dumps(x) for x in sigs))
    open(lp, "w").write("\n".join(json.dumps(x) for x in lists))
    p = run_harness(["decl-cases", dp, sp, op, lp])
    if p.returncode != 0:
        c.tool_error("decl-cases failed: " + p.stderr[-1500:])
    d = json.load(open(op))
    seen = set()
    for f in d["failures"]:
        form = f["form"].split(":")[0]
        key = (f["kind"], form, f.get("site") or "")
        if key in seen:
            continue
        seen.add(key)
        c.report({"kind": f["kind"], "form": form, "what": f["what"] + f": {f['text']!r}", "text": f["text"], "site": f.get("site") or "", "detail": f["detail"]})
    c.cov.update({"evaluations": d["cases"], "distinct_nontrivial": len({x["text"] for x in decls + sigs + lists}),
                  "rule": "one case per distinct declaration text enumerated by TLC from TypeRules.tla (forms x types x widths x scopes); all are non-trivial (each has its own expected type)",
                  "exhaustive": True, "declaration_cases": len(decls), "signature_cases": len(sigs)})
    for i in (10, len(decls) // 2, len(decls) - 4):
        c.sample({"text": decls[i]["text"], "expect": decls[i]["expect"]})
    c.finish()


if __name__ == "__main__":
    main_guard(main)
