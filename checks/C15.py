#!/usr/bin/env python3
"""C15 - well-formed lexemes are classified correctly regardless of neighbours and layout.

Lexemes.tla (R) is the OpenQASM 3 lexical grammar as a pool of lexeme descriptors with the rule
NeedsSep for when two neighbours must be separated.  TLC enumerates EVERY ordered pair of pool
lexemes with every admissible separator (and juxtaposed where allowed) plus simulated longer
sequences; the harness renders each, runs the real lexer + token table and compares the non-trivia
rows with the descriptors (kind, exact text) and requires 'no lexical error'.
"""
import json, os, sys
sys.path.insert(0, os.path.dirname(os.path.abspath(__file__)))
from lexgen import *


def main():
    c = Check("C15")
    c.level = "model_checking"
    c.assumptions += ["the lexeme pool (217 descriptors) stands for the lexical grammar: every keyword/type/punctuation, one representative per number/identifier/string/comment shape",
                      "Unicode tables (unicode-xid) trusted; CRLF after line-terminated lexemes not exercised",
                      "a version header is followed by ';' or white space (never ends the input)"]
    build_harness()
    pool, seps, cases, stats = generate(c, 4000 if c.quick else 60000)
    wf = [x for x in cases if not any(pool[e["l"] - 1]["bad"] for e in x)]
    out = replay(c, pool, seps, wf)
    seen = set()
    for f in out["failures"]:
        if f.get("has_bad"):
            continue
        key = (f["kind"], f.get("lexeme"))
        if key in seen:
            continue
        seen.add(key)
        c.report({"kind": f["kind"], "lexeme": f.get("lexeme", ""), "cls": f.get("cls", ""), "what": f["what"] + ": " + repr(f.get("lexeme")),
                  "text": f["text"], "lexemes": f.get("lexemes"), "expected": f.get("expected"), "observed": f.get("observed"),
                  "panic": f.get("panic")})
    mr = model_refines(c)
    c.cov["design_level"] = mr
    c.cov.update({"states": stats["pairs_states"] + mr["states"], "transitions": stats["pairs_states"],
                  "traces_validated_against_impl": out["cases"], "exhaustive": True,
                  "pool_lexemes": stats["pool"], "well_formed_cases": len(wf), **stats})
    for i in (7, len(wf) // 2, len(wf) - 3):
        c.sample({"text": render(pool, seps, wf[i]), "expected_rows": [[pool[e["l"] - 1]["kind"], pool[e["l"] - 1]["text"]] for e in wf[i] if pool[e["l"] - 1]["kind"] != "-"]})
    c.finish()


if __name__ == "__main__":
    main_guard(main)
