"""Shared by C15 and C11: TLC generates lexeme sequences from spec/lexemes (Lexemes.tla is the
requirement spec), the harness replays them through the real lexer / token table."""
import json, os, sys
sys.path.insert(0, os.path.join(os.path.dirname(os.path.abspath(__file__)), "..", "tools"))
from vlib import *


def generate(c, want_sim):
    """Returns (pool, seps, cases, stats)."""
    r = run_tlc("lexemes", "LexemeGen", "LexemeGen_pairs.cfg", workers=8, timeout=1200, cache_key="pairs",
                keep_tags={"CASE", "POOL", "SEPS"})
    if not r.ok:
        c.tool_error(f"LexemeGen pairs failed: {r.error_text} {r.raw_tail[-600:]}")
    pool = r.tagged["POOL"][0]; seps = r.tagged["SEPS"][0]
    cases = list(r.tagged["CASE"])
    stats = {"pairs_states": r.distinct, "pairs_cases": len(cases), "pool": len(pool), "separators": len(seps)}
    if want_sim:
        s = run_tlc("lexemes", "LexemeGen", "LexemeGen_sim.cfg", workers=1, timeout=1200, simulate=want_sim, depth=9,
                    seed=c.seed, keep_tags={"CASE"})
        if s.timed_out:
            c.tool_error("LexemeGen simulation timed out")
        sc = s.tagged.get("CASE", [])
        stats["sim_cases"] = len(sc)
        cases += sc
    return pool, seps, cases, stats


def model_refines(c):
    """Design level: Lexer (+) TokenTable |= Lexemes, model-checked by TLC over every pair sequence (spec/lexer/LexRefine.tla)."""
    r = run_tlc("lexer", "LexRefine", "LexRefine_pairs.cfg", workers=8, timeout=1500, xss="512m", cache_key="refine", lib="lexemes", keep_tags=set())
    if not r.ok:
        c.tool_error(f"LexRefine: the lexer machine specs do not refine Lexemes: {r.violated or r.error_text} {r.raw_tail[-600:]}")
    return {"module": "LexRefine", "states": r.distinct, "invariants": ["C15_Model", "C11_Model"]}


def replay(c, pool, seps, cases):
    pp = os.path.join(c.work, "pool.json"); sp = os.path.join(c.work, "seps.json"); cp = os.path.join(c.work, "cases.ndjson")
    json.dump(pool, open(pp, "w")); json.dump(seps, open(sp, "w"))
    with open(cp, "w") as fh:
        for x in cases:
            fh.write(json.dumps(x) + "\n")
    op = os.path.join(c.work, "lexout.json")
    p = run_harness(["lex-cases", pp, sp, cp, op])
    if p.returncode != 0:
        c.tool_error("lex-cases failed: " + p.stderr[-2000:])
    return json.load(open(op))


def render(pool, seps, case):
    t = ""
    for e in case:
        if e["s"] > 0:
            t += seps[e["s"] - 1]["t"]
        t += pool[e["l"] - 1]["text"]
    return t
