SPECIFICATION GSpec
CONSTANTS Tier = "thorough"
INVARIANTS C04_Model C05e_Model
CHECK_DEADLOCK FALSE
