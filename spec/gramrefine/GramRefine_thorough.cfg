SPECIFICATION GSpec
CONSTANTS Tier = "thorough"
INVARIANT C04_Model
CHECK_DEADLOCK FALSE
