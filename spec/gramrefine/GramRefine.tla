----------------------------- MODULE GramRefine -----------------------------
(***************************************************************************)
(* Design-level acceptance check for C04: the composition of the machine     *)
(* specs of the front end                                                    *)
(*     text -> Lexer -> TokenTable -> ToInput -> Grammar -> event::process   *)
(* accepts every program of the reference grammar (RefGrammar / GrammarCases) *)
(* without a lexical diagnostic and without an error event, returns normally *)
(* and yields one balanced tree.  Each case is printed by RefGrammar's own    *)
(* printer and laid out with single blanks (the harness's layout 0).         *)
(***************************************************************************)
EXTENDS GrammarCases
VARIABLES cs, toks
TT == INSTANCE TokenTable
G == INSTANCE Grammar
ST == INSTANCE SyntaxTree
AP == INSTANCE AstProj WITH MC <- TT!ModelChars

RECURSIVE TextOf(_, _, _)
(* render(toks, 0): tokens separated by one blank; "\n" tokens are line ends and take no blank around them *)
TextOf(ts, i, acc) ==
  IF i > Len(ts) THEN acc
  ELSE IF ts[i] = "\n" THEN TextOf(ts, i + 1, acc \o <<"\n">>)
  ELSE LET sep == IF i > 1 /\ ts[i - 1] # "\n" /\ acc # <<>> THEN <<" ">> ELSE <<>>
       IN TextOf(ts, i + 1, acc \o sep \o TT!ModelChars(ts[i]))
AllCases == ExprCases \cup StmtCases \cup AnnotCases
(* one initial state per case family, one successor per case: TLC's workers then evaluate the cases in parallel *)
VARIABLE picked
Fams == { cc.fam : cc \in AllCases }
Bucket(cc) == (Len(cc.toks) + Len(cc.sig)) % 12
GInit == \E f \in Fams, bk \in 0..11 : cs = [fam |-> f, b |-> bk] /\ toks = <<>> /\ picked = FALSE
GNext == /\ ~picked /\ picked' = TRUE /\ x' = x
         /\ \E cc \in AllCases : cc.fam = cs.fam /\ Bucket(cc) = cs.b /\ cs' = cc /\ toks' = TT!ToInput(TextOf(cc.toks, 1, <<>>))
GSpec == GInit /\ x = 0 /\ [][GNext]_<<cs, toks, x, picked>>

(* known deviation (known finding C04: an assignment whose right-hand side is a binary expression is a syntax error) *)
Dev_AssignBinaryRhs == cs.fam \in {"pairL@assign", "bin@assign"} \/ cs.sig = "stmt:assign:binary-rhs"
ErrorEvents(p) == SelectSeq(p.ev, LAMBDA e : e.tag = "error")
(* the non-trivia raw tokens of the case's text, with their characters *)
NTokens(txt) == LET tab == TT!Table(txt)
                    nt == SelectSeq(tab, LAMBDA r : ~TT!IsTriviaKind(r.kind))
                IN [i \in 1..Len(nt) |-> [kind |-> nt[i].kind, txt |-> SubSeq(txt, nt[i].st, nt[i].st + nt[i].n - 1)]]
(* the validation pass (validation.rs) on the tree the builder makes from the model's events *)
ValidationOK(p) == LET txt == TextOf(cs.toks, 1, <<>>)
                       root == ST!TreeOf(G!Process(p.ev, 1, {}), NTokens(txt))
                   IN ST!ValidationErrors(root) = <<>>
(* C05 on the model, for the expression families: the typed-AST projection of the parsed expression is the abstract expression *)
(* the case was printed from (operator precedence and associativity, unary / postfix / cast / index / call nesting)             *)
ExprFams == { cc.fam : cc \in ExprCases }
C05e_Holds(p) ==
  LET txt == TextOf(cs.toks, 1, <<>>)
      root == ST!TreeOf(G!Process(p.ev, 1, {}), NTokens(txt))
      stmts == SelectSeq(root.ch, LAMBDA nd : nd.k # "tok")
      s1 == cs.sk[1]
      node == stmts[1]
      xs == AP!ChildrenIn(node, AP!ExprKinds)
  IN /\ Len(stmts) = 1
     /\ CASE s1.k = "decl" -> node.k = "CLASSICAL_DECLARATION_STATEMENT" /\ Len(xs) >= 1 /\ AP!MatchE(xs[1], s1.init)
          [] s1.k = "exprstmt" -> node.k = "EXPR_STMT" /\ Len(xs) >= 1 /\ AP!MatchE(xs[1], s1.e)
          [] s1.k = "if" -> node.k = "IF_STMT" /\ Len(xs) >= 1 /\ AP!MatchE(xs[1], s1.c)
          [] s1.k = "assign" -> node.k = "ASSIGNMENT_STMT" /\ Len(xs) >= 2 /\ AP!MatchE(xs[1], s1.lhs) /\ AP!MatchE(xs[2], s1.rhs)
          [] OTHER -> TRUE
C05e_Model == (picked /\ cs.fam \in ExprFams /\ Len(cs.sk) = 1 /\ ~Dev_AssignBinaryRhs) => C05e_Holds(G!Parsed)

C04_Model == picked =>
  LET p == G!Parsed IN
    /\ TT!LexErrors(TextOf(cs.toks, 1, <<>>)) = <<>>
    /\ G!ReturnsNormally(p) /\ G!ConsumesAll(p) /\ G!MarkersDischarged(p)
    /\ (Dev_AssignBinaryRhs \/ (ErrorEvents(p) = <<>> /\ ValidationOK(p)))
=============================================================================
