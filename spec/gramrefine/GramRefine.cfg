SPECIFICATION GSpec
CONSTANTS Tier = "quick"
INVARIANTS C04_Model C05e_Model
CHECK_DEADLOCK FALSE
