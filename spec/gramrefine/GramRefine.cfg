SPECIFICATION GSpec
CONSTANTS Tier = "quick"
INVARIANT C04_Model
CHECK_DEADLOCK FALSE
