----------------------------- MODULE EventProc -----------------------------
(***************************************************************************)
(* event::process as a pure function on an event list (no variables), shared *)
(* by Events.tla (the protocol machine) and the grammar machine spec.        *)
(* An event is [tag, kind, fwd, n]; kind "T" is TOMBSTONE; fwd = 0 is None.  *)
(***************************************************************************)
EXTENDS Naturals, Integers, Sequences, FiniteSets
RECURSIVE Chain(_, _, _, _)
(* kinds along the forward-parent chain starting at event i.  process() replaces every event it has   *)
(* consumed by a tombstone without forward parent: `dead` is the set of consumed start events.         *)
Chain(ev, i, acc, dead) ==
  IF i \in dead THEN Append(acc, "T")
  ELSE LET e == ev[i] IN
    IF e.fwd = 0 THEN Append(acc, e.kind) ELSE Chain(ev, i + e.fwd, Append(acc, e.kind), dead)
RECURSIVE ChainIdx(_, _, _, _)
ChainIdx(ev, i, acc, dead) == IF i \in dead \/ ev[i].fwd = 0 THEN acc \cup {i} ELSE ChainIdx(ev, i + ev[i].fwd, acc \cup {i}, dead)

RECURSIVE Process(_, _, _)
(* Process(ev, i, dead): steps for events i.. ; dead = start events already consumed through a chain *)
Process(ev, i, dead) ==
  IF i > Len(ev) THEN <<>>
  ELSE LET e == ev[i] IN
    CASE e.tag = "start" ->
           IF i \in dead THEN Process(ev, i + 1, dead)
           ELSE LET ks == Chain(ev, i, <<>>, dead)
                    enters == [j \in 1..Len(ks) |-> ks[Len(ks) + 1 - j]]
                    real == SelectSeq(enters, LAMBDA k : k # "T")
                IN [j \in 1..Len(real) |-> [s |-> "enter", kind |-> real[j], n |-> 0]] \o Process(ev, i + 1, dead \cup ChainIdx(ev, i, {}, dead))
      [] e.tag = "finish" -> << [s |-> "exit", kind |-> "-", n |-> 0] >> \o Process(ev, i + 1, dead)
      [] e.tag = "token" -> << [s |-> "token", kind |-> e.kind, n |-> e.n] >> \o Process(ev, i + 1, dead)     \* the token kind is kept ("tok" in Events.tla)
      [] e.tag = "error" -> << [s |-> "error", kind |-> "-", n |-> 0] >> \o Process(ev, i + 1, dead)
RECURSIVE Depths(_, _)
Depths(sk, d) == IF sk = <<>> THEN <<>>
                 ELSE LET x == sk[1]
                          d2 == CASE x.s = "enter" -> d + 1 [] x.s = "exit" -> d - 1 [] OTHER -> d
                      IN <<d2>> \o Depths(Tail(sk), d2)
(* the steps are balanced: depth never negative, ends at 0 *)
BalancedSteps(steps) == LET ds == Depths(steps, 0) IN ds = <<>> \/ (ds[Len(ds)] = 0 /\ \A i \in 1..Len(ds) : ds[i] >= 0)
(* one root: opened first, closed last *)
SingleRootSteps(steps) == LET ds == Depths(steps, 0) IN
                            /\ steps # <<>> /\ steps[1].s = "enter" /\ ds[Len(ds)] = 0
                            /\ \A i \in 1..(Len(ds) - 1) : ds[i] >= 1
=============================================================================
