SPECIFICATION Spec
CONSTANTS
  MaxNT = 2
  MaxCalls = 7
  MaxErrs = 2
  MaxTrivia = 1
INVARIANTS TreeShapeHolds BuilderNeverOverruns Balanced
CHECK_DEADLOCK FALSE
