---------------------------- MODULE EventsTrace ----------------------------
(***************************************************************************)
(* Trace spec (T) for Events: the Parser / Marker / CompletedMarker calls    *)
(* the REAL grammar makes while parsing a text (hook oq3_parser::verif::     *)
(* keep_ops) must be a behaviour of the protocol machine spec, i.e. the      *)
(* grammar must be a disciplined client:                                     *)
(*   - it completes / abandons only the innermost live marker,               *)
(*   - it precedes / extends only the node completed last at that level,     *)
(*   - it never abandons a marker obtained from precede(),                   *)
(*   - it glues raw tokens only when they are joint,                         *)
(* and at the end of every parse the raw event list of the real Parser, the  *)
(* steps event::process delivers and the steps intersperse_trivia hands to   *)
(* the tree builder are exactly what the spec computes from the calls - and  *)
(* they satisfy the tree-shape requirement (C02).                            *)
(* A file holds many parses; a "begin" record resets the machine.            *)
(***************************************************************************)
EXTENDS Events, Json, IOUtils

Rec == ndJsonDeserialize(IOEnv.TRACE)
VARIABLE l
tvars == <<events, stack, lastcm, pos, ncalls, errs, Trivia, calls, l>>

Top == stack[Len(stack)]
Ev == Rec[l]
IsEv(name) == l <= Len(Rec) /\ Rec[l].ev = name
Adv(k) == l' = l + k

TBegin == /\ IsEv("begin") /\ Adv(1)
          /\ events' = <<>> /\ stack' = <<>> /\ lastcm' = <<0>> /\ pos' = 0 /\ ncalls' = 0 /\ errs' = 0 /\ calls' = <<>>
          /\ Trivia' = Ev.trivia
TStart == /\ IsEv("start") /\ Adv(1)
          /\ Ev.m = Len(events) + 1
          /\ Start
(* precede() = Parser::start + the forward-parent link; the recorder merges the two hook records into one *)
TPrecede == /\ IsEv("precede") /\ Adv(1)
            /\ Ev.cm = lastcm[Level]                 \* discipline: the node completed last at this level
            /\ Ev.m = Len(events) + 1
            /\ Precede
TComplete == /\ IsEv("complete") /\ Adv(1)
             /\ stack # <<>> /\ Ev.m = Top            \* discipline: innermost live marker
             /\ Complete(Ev.kind)
TAbandon == /\ IsEv("abandon") /\ Adv(1)
            /\ stack # <<>> /\ Ev.m = Top
            /\ Abandon
TExtendTo == /\ IsEv("extend_to") /\ Adv(1)
             /\ stack # <<>> /\ Ev.m = Top /\ Ev.cm = lastcm[Level]
             /\ ExtendTo
TBump == /\ IsEv("bump") /\ Adv(1) /\ Bump(Ev.n)
TError == /\ IsEv("error") /\ Adv(1) /\ Error
(* end of one parse: compare the real raw events, Output and sink with the machine's *)
NormEv(e) == [tag |-> e.tag, kind |-> e.kind, fwd |-> e.fwd, n |-> e.n]
NormSink(x) == IF x.s = "enter" THEN [s |-> "enter", raw |-> <<>>, kind |-> x.kind] ELSE [s |-> x.s, raw |-> x.raw]
EndOK(e) ==
  /\ stack = <<>>
  /\ Len(e.events) = Len(events) /\ \A i \in 1..Len(events) : NormEv(e.events[i]) = events[i]
  /\ LET b == Built  nraw == NRaw IN
       /\ b.ok /\ b.bpos = nraw
       /\ Len(e.sink) = Len(b.sink) /\ \A i \in 1..Len(b.sink) : NormSink(e.sink[i]) = b.sink[i]
       /\ SingleRoot(b.sink) /\ Lossless(b.sink, nraw) /\ ErrorPos(b.sink, nraw)
  /\ pos = NT
TEnd == /\ IsEv("end") /\ Adv(1) /\ EndOK(Ev)
        /\ UNCHANGED vars

TInit == l = 1 /\ events = <<>> /\ stack = <<>> /\ lastcm = <<0>> /\ pos = 0 /\ ncalls = 0 /\ errs = 0 /\ calls = <<>> /\ Trivia = <<0>>
TNext == TBegin \/ TStart \/ TPrecede \/ TComplete \/ TAbandon \/ TExtendTo \/ TBump \/ TError \/ TEnd
TSpec == TInit /\ [][TNext]_tvars

(* acceptance: every record consumed (one state per record + the initial state).  The deepest state reached   *)
(* is remembered in a TLC register so that a rejection can say why the next record was not enabled.            *)
Remember == TLCSet(1, [l |-> l, stack |-> stack, lastcm |-> lastcm, nev |-> Len(events), pos |-> pos, trivia |-> Trivia,
                       tail |-> SubSeq(events, IF Len(events) > 6 THEN Len(events) - 5 ELSE 1, Len(events))])
Accepted ==
  LET d == TLCGet("stats").diameter IN
    IF d - 1 = Len(Rec) THEN TRUE
    ELSE PrintT(<<"REJECT", ToJson([line |-> d, rec |-> Rec[d], state |-> TLCGet(1)])>>) /\ FALSE
=============================================================================
