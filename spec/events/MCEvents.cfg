SPECIFICATION Spec
CONSTANTS
  MaxNT = 2
  MaxCalls = 7
  MaxErrs = 2
  MaxTrivia = 1
VIEW View
INVARIANTS TreeShapeHolds BuilderNeverOverruns Balanced Emit
CHECK_DEADLOCK FALSE
