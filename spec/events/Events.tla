------------------------------- MODULE Events -------------------------------
(***************************************************************************)
(* Machine spec (M) of the parser <-> tree-builder protocol:                 *)
(*   oq3_parser/src/parser.rs   Parser::{start, do_bump, error}, Marker::    *)
(*                              {complete, abandon}, CompletedMarker::       *)
(*                              {precede, extend_to}                         *)
(*   oq3_parser/src/event.rs    process (forward_parent chains, tombstones)  *)
(*   oq3_parser/src/shortcuts.rs intersperse_trivia / Builder                *)
(* for ANY client that uses the Marker API with the typestate discipline the *)
(* Rust types and the DropBomb enforce plus proper nesting (a marker is      *)
(* completed / abandoned only when it is the innermost live one).            *)
(* The requirement (TreeShape, C02) is checked on what the sink receives.    *)
(***************************************************************************)
EXTENDS Naturals, Integers, Sequences, FiniteSets, TLC, EventProc

CONSTANTS MaxNT,     \* bound on the number of non-trivia raw tokens of the input
          MaxCalls,  \* bound on API calls
          MaxErrs,   \* bound on Parser::error calls
          MaxTrivia  \* Trivia[i] \in 0..MaxTrivia : number of trivia raw tokens BEFORE non-trivia token i (i \in 1..NT+1; the last = trailing)

(* events: [tag, kind, fwd, n]; kind "T" = TOMBSTONE, node kinds "N1", "N2" *)
VARIABLES events, stack, lastcm, pos, ncalls, errs, Trivia, calls
vars == <<events, stack, lastcm, pos, ncalls, errs, Trivia, calls>>
(* calls: history of API calls (only for printing behaviours; hidden by the VIEW) *)
(* stack   : positions of the live markers, innermost last (typestate: each must be completed or abandoned)   *)
(* lastcm  : per nesting level (index 1 = outside all markers), the event position of the most recently      *)
(*           completed child at that level that can still be given a forward parent (0 = none)                *)

NT == Len(Trivia) - 1      \* number of non-trivia raw tokens of the input (Trivia is a sequence of NT + 1 counts)
Tomb == [tag |-> "start", kind |-> "T", fwd |-> 0, n |-> 0]
Init == events = <<>> /\ stack = <<>> /\ lastcm = <<0>> /\ pos = 0 /\ ncalls = 0 /\ errs = 0
        /\ Trivia \in [1..(MaxNT + 1) -> 0..MaxTrivia] /\ calls = <<>>

Can == ncalls < MaxCalls
Tick == ncalls' = ncalls + 1 /\ UNCHANGED Trivia
Log(c) == calls' = Append(calls, c)
Level == Len(stack) + 1

(* Parser::start *)
Start ==
  /\ Can /\ Tick /\ Log(<<"start">>)
  /\ events' = Append(events, Tomb)
  /\ stack' = Append(stack, Len(events) + 1)
  /\ lastcm' = Append(lastcm, 0)
  /\ UNCHANGED <<pos, errs>>

(* Marker::complete on the innermost live marker *)
Complete(kind) ==
  /\ Can /\ Tick /\ Log(<<"complete", kind>>) /\ stack # <<>>
  /\ LET m == stack[Len(stack)] IN
       /\ events' = Append([events EXCEPT ![m].kind = kind], [tag |-> "finish", kind |-> "-", fwd |-> 0, n |-> 0])
       /\ stack' = SubSeq(stack, 1, Len(stack) - 1)
       /\ lastcm' = [SubSeq(lastcm, 1, Len(lastcm) - 1) EXCEPT ![Len(lastcm) - 1] = m]
  /\ UNCHANGED <<pos, errs>>

(* Marker::abandon: the start event is removed only if it is the last event *)
IsForwardParent(m) == \E i \in 1..(m - 1) : events[i].tag = "start" /\ events[i].fwd = m - i
Abandon ==
  /\ Can /\ Tick /\ Log(<<"abandon">>) /\ stack # <<>>
  (* API contract: a marker obtained from precede() is the forward parent of a completed node and must be completed *)
  /\ ~IsForwardParent(stack[Len(stack)])
  /\ LET m == stack[Len(stack)] IN
       /\ events' = IF m = Len(events) THEN SubSeq(events, 1, Len(events) - 1) ELSE events
       /\ stack' = SubSeq(stack, 1, Len(stack) - 1)
       (* children completed inside the abandoned marker become children of the enclosing one *)
       /\ lastcm' = [SubSeq(lastcm, 1, Len(lastcm) - 1) EXCEPT ![Len(lastcm) - 1] = IF lastcm[Len(lastcm)] # 0 THEN lastcm[Len(lastcm)] ELSE @]
  /\ UNCHANGED <<pos, errs>>

(* CompletedMarker::precede: a new marker that becomes the parent of the last completed child *)
Precede ==
  /\ Can /\ Tick /\ Log(<<"precede">>) /\ lastcm[Level] # 0
  /\ LET cm == lastcm[Level]  new == Len(events) + 1 IN
       /\ events[cm].fwd = 0
       /\ events' = Append([events EXCEPT ![cm].fwd = new - cm], Tomb)
       /\ stack' = Append(stack, new)
       /\ lastcm' = Append([lastcm EXCEPT ![Level] = 0], 0)
  /\ UNCHANGED <<pos, errs>>

(* CompletedMarker::extend_to(m): the innermost live marker m is given up; the last child completed inside it   *)
(* is extended to the left up to m                                                                             *)
ExtendTo ==
  /\ Can /\ Tick /\ Log(<<"extend_to">>) /\ stack # <<>> /\ lastcm[Level] # 0
  /\ LET m == stack[Len(stack)]  cm == lastcm[Level] IN
       /\ events[m].fwd = 0
       /\ events' = [events EXCEPT ![m].fwd = cm - m]
       /\ stack' = SubSeq(stack, 1, Len(stack) - 1)
       /\ lastcm' = [SubSeq(lastcm, 1, Len(lastcm) - 1) EXCEPT ![Len(lastcm) - 1] = cm]
  /\ UNCHANGED <<pos, errs>>

(* Parser::do_bump(kind, n): n raw (non-trivia, joint) tokens become one token *)
Bump(n) ==
  /\ Can /\ Tick /\ Log(<<"bump", n>>) /\ pos + n <= NT
  (* jointness precondition of at_composite2/3: the glued raw tokens are adjacent (no trivia between them) *)
  /\ \A k \in 1..(n - 1) : Trivia[pos + k + 1] = 0
  /\ events' = Append(events, [tag |-> "token", kind |-> "tok", fwd |-> 0, n |-> n])
  /\ pos' = pos + n
  /\ UNCHANGED <<stack, lastcm, errs>>

Error ==
  /\ Can /\ Tick /\ Log(<<"error">>) /\ errs < MaxErrs
  /\ events' = Append(events, [tag |-> "error", kind |-> "-", fwd |-> 0, n |-> 0])
  /\ errs' = errs + 1
  /\ UNCHANGED <<stack, lastcm, pos>>

DoStart == Start
DoComplete == \E k \in {"N1", "N2"} : Complete(k)
DoAbandon == Abandon
DoPrecede == Precede
DoExtendTo == ExtendTo
DoBump == \E n \in 1..2 : Bump(n)
DoError == Error
Next == DoStart \/ DoComplete \/ DoAbandon \/ DoPrecede \/ DoExtendTo \/ DoBump \/ DoError
Spec == Init /\ [][Next]_vars

(***************************************************************************)
(* event::process: the Output steps                                          *)
(***************************************************************************)
Output == Process(events, 1, {})

(***************************************************************************)
(* intersperse_trivia: raw token table = for each non-trivia token i:        *)
(* Trivia[i] trivia tokens then the token; Trivia[NT+1] trailing trivia.     *)
(* Raw tokens are numbered 1..NRaw; IsTrivia(r).                             *)
(***************************************************************************)
RECURSIVE RawTable(_)
RawTable(i) == IF i > NT THEN [j \in 1..Trivia[NT + 1] |-> "ws"]
               ELSE [j \in 1..Trivia[i] |-> "ws"] \o <<"tok">> \o RawTable(i + 1)
Raw == RawTable(1)
NRaw == Len(Raw)

(* Builder: state = [bpos (raw tokens emitted), st \in {"PendingEnter","Normal","PendingExit"}, sink].            *)
(* The raw token table is passed down as `raw` (TLC would otherwise recompute RawTable at every reference).        *)
RECURSIVE EatTrivia(_, _, _)
EatTrivia(bpos, sink, raw) ==
  IF bpos < Len(raw) /\ raw[bpos + 1] = "ws" THEN EatTrivia(bpos + 1, Append(sink, [s |-> "token", raw |-> <<bpos + 1>>]), raw)
  ELSE [bpos |-> bpos, sink |-> sink]

RECURSIVE Build(_, _, _, _, _)
Build(steps, bpos, st, sink, raw) ==
  IF steps = <<>> THEN
       (* end: the pending exit is flushed after the trailing trivia *)
       IF st = "PendingExit" THEN LET t == EatTrivia(bpos, sink, raw) IN [bpos |-> t.bpos, sink |-> Append(t.sink, [s |-> "exit", raw |-> <<>>]), ok |-> TRUE]
       ELSE [bpos |-> bpos, sink |-> sink, ok |-> FALSE]               \* unreachable!() in the code
  ELSE LET x == steps[1]  rest == Tail(steps) IN
    CASE x.s = "token" ->
           IF st = "PendingEnter" THEN [bpos |-> bpos, sink |-> sink, ok |-> FALSE]
           ELSE LET s1 == IF st = "PendingExit" THEN Append(sink, [s |-> "exit", raw |-> <<>>]) ELSE sink
                    t == EatTrivia(bpos, s1, raw)
                IN IF t.bpos + x.n > Len(raw) THEN [bpos |-> t.bpos, sink |-> t.sink, ok |-> FALSE]    \* range_text assertion
                   ELSE Build(rest, t.bpos + x.n, "Normal", Append(t.sink, [s |-> "token", raw |-> [j \in 1..x.n |-> t.bpos + j]]), raw)
      [] x.s = "enter" ->
           IF st = "PendingEnter" THEN Build(rest, bpos, "Normal", Append(sink, [s |-> "enter", raw |-> <<>>, kind |-> x.kind]), raw)
           ELSE LET s1 == IF st = "PendingExit" THEN Append(sink, [s |-> "exit", raw |-> <<>>]) ELSE sink
                    t == EatTrivia(bpos, s1, raw)                      \* no attached trivia (n_attached_trivias = 0 for all kinds but CONST, which no node has)
                IN Build(rest, t.bpos, "Normal", Append(t.sink, [s |-> "enter", raw |-> <<>>, kind |-> x.kind]), raw)
      [] x.s = "exit" ->
           IF st = "PendingEnter" THEN [bpos |-> bpos, sink |-> sink, ok |-> FALSE]
           ELSE Build(rest, bpos, "PendingExit", IF st = "PendingExit" THEN Append(sink, [s |-> "exit", raw |-> <<>>]) ELSE sink, raw)
      [] x.s = "error" -> Build(rest, bpos, st, Append(sink, [s |-> "error", raw |-> <<bpos>>]), raw)

Built == LET raw == RawTable(1) IN Build(Output, 0, "PendingEnter", <<>>, raw)

(***************************************************************************)
(* Requirement (TreeShape on the sink), for a client that has finished:      *)
(* everything discharged and exactly one root opened first.                  *)
(***************************************************************************)
Finished == stack = <<>> /\ events # <<>> /\ events[1].tag = "start" /\ events[1].kind # "T" /\ events[1].fwd = 0
            /\ ~(\E i \in 2..Len(events) : FALSE)
SinkTokens(sk) == SelectSeq(sk, LAMBDA x : x.s = "token")
RECURSIVE Flatten(_)
Flatten(ts) == IF ts = <<>> THEN <<>> ELSE ts[1].raw \o Flatten(Tail(ts))

(* the root was opened first and closed last, nothing outside it *)
SingleRoot(sk) == LET ds == Depths(sk, 0) IN
                    /\ sk # <<>> /\ sk[1].s = "enter" /\ ds[Len(ds)] = 0
                    /\ \A i \in 1..(Len(ds) - 1) : ds[i] >= 1
(* leaf texts are the raw tokens 1, 2, 3, ... each exactly once, in order *)
Lossless(sk, n) == Flatten(SinkTokens(sk)) = [j \in 1..n |-> j]
(* an error is reported at a position within the text *)
ErrorPos(sk, n) == \A i \in 1..Len(sk) : sk[i].s = "error" => sk[i].raw[1] <= n

(* the root is the whole client's work: some client finished with everything inside one root node *)
ClientDone == Finished /\ pos = NT /\
              (LET ds == Depths(Output, 0) IN Output # <<>> /\ Output[1].s = "enter" /\ ds[Len(ds)] = 0 /\ \A i \in 1..(Len(ds) - 1) : ds[i] >= 1)

TreeShapeHolds == ClientDone => LET b == Built  n == NRaw IN (b.ok /\ SingleRoot(b.sink) /\ Lossless(b.sink, n) /\ ErrorPos(b.sink, n) /\ b.bpos = n)
(* whatever the client does, the builder never reads past the token table, and balanced client output stays balanced *)
BuilderNeverOverruns == (Finished /\ pos <= NT) => LET b == Built IN (b.ok => b.bpos <= NRaw)
(* the debug assertion of TopEntryPoint::parse: output of a finished, single-rooted client is balanced *)
Balanced == Finished => (LET ds == Depths(Output, 0) IN ds = <<>> \/ ds[Len(ds)] = 0)
=============================================================================
