SPECIFICATION TSpec
CONSTANTS
  MaxNT = 0
  MaxCalls = 100000000
  MaxErrs = 100000000
  MaxTrivia = 0
CONSTRAINT Remember
POSTCONDITION Accepted
CHECK_DEADLOCK FALSE
