SPECIFICATION Spec
CONSTANTS
  MaxNT = 3
  MaxCalls = 9
  MaxErrs = 2
  MaxTrivia = 1
VIEW View
INVARIANTS TreeShapeHolds BuilderNeverOverruns Balanced Emit
CHECK_DEADLOCK FALSE
