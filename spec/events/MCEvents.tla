----------------------------- MODULE MCEvents -----------------------------
(* Model-checking harness for Events: VIEW hiding the call history, and one CASE line per finished client   *)
(* (B1: the call sequence is replayed on the real Parser/Marker through hook H2 and the StrSteps compared). *)
EXTENDS Events, Json
View == <<events, stack, lastcm, pos, ncalls, errs, Trivia>>
Emit == ClientDone => PrintT(<<"CASE", ToJson([calls |-> calls, trivia |-> Trivia, nt |-> NT, sink |-> Built.sink, output |-> Output])>>)
=============================================================================
