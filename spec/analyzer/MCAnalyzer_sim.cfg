SPECIFICATION Spec
CONSTANTS
  Names = {"a", "b", "h", "U", "pi"}
  MaxStmts = 12
  MaxDepth = 5
INVARIANTS ScopeDepthMatchesNesting BackToGlobal IdsDense MSatisfiesR_Long EmitLong
CHECK_DEADLOCK FALSE
