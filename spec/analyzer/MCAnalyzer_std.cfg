SPECIFICATION Spec
CONSTANTS
  GateMods <- GateModsSmall
  Names = {"h", "x"}
  MaxStmts = 5
  MaxDepth = 1
CONSTRAINT FocusStd
INVARIANTS ScopeDepthMatchesNesting BackToGlobal IdsDense MSatisfiesR Emit
CHECK_DEADLOCK FALSE
