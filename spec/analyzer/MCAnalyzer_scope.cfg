SPECIFICATION Spec
CONSTANTS
  GateMods <- GateModsSmall
  Names = {"a"}
  MaxStmts = 5
  MaxDepth = 2
CONSTRAINT FocusScope
INVARIANTS ScopeDepthMatchesNesting BackToGlobal IdsDense MSatisfiesR EmitScope
CHECK_DEADLOCK FALSE
