------------------------------ MODULE Analyzer ------------------------------
(***************************************************************************)
(* Machine spec (M) of oq3_semantics::syntax_to_semantics over ABSTRACT      *)
(* PROGRAMS that are generated lazily, one instruction at a time.            *)
(* The state is what the analyser carries: the symbol table (scope stack of  *)
(* maps, list of all symbols), the pending output (statement skeletons per   *)
(* open body) and the diagnostics.  Each action mirrors one arm of           *)
(* stmt_to_asg_stmt / expr_to_asg_texpr: which scope operations, look-ups,   *)
(* bindings and diagnostics it performs and in which order.                  *)
(*                                                                         *)
(* Instruction vocabulary (prog):                                           *)
(*   [op |-> "decl", ty, n, init]     ty in DeclTypes, init = [k, n]         *)
(*   [op |-> "qubit", n] [op |-> "qreg", n]                                  *)
(*   [op |-> "assign", n, rhs]         rhs = [k |-> "lit"|"use"|"measure", n]*)
(*   [op |-> "gatecall", g, np, qs, mod]                                     *)
(*   [op |-> "use", n] [op |-> "reset", n] [op |-> "barrier", qs]            *)
(*   [op |-> "delay", qs] [op |-> "return", e] [op |-> "break"]              *)
(*   [op |-> "switch", c] [op |-> "case"] [op |-> "default"] (closed by "close") *)
(*   [op |-> "std"] (include "stdgates.inc") [op |-> "pragma"] [op |-> "annot"]*)
(*   [op |-> "if", c, block] [op |-> "else", block] [op |-> "while", c, block]*)
(*   [op |-> "for", v, it, x, block] (x: the name in the iterable) [op |-> "gphase", mod] *)
(*   [op |-> "gate", n, ps, qs] [op |-> "def", n, ps]                         *)
(*   [op |-> "close"]                                                        *)
(*   [op |-> "ix", role, n, ix, x]     indexed identifier n<ix> as expression *)
(*                                     statement / reset or measure operand / *)
(*                                     assignment target                      *)
(***************************************************************************)
EXTENDS Naturals, Integers, Sequences, FiniteSets, TLC

CONSTANTS Names,      \* identifiers used in every role (variables, qubits, gates, parameters)
          MaxStmts,   \* bound on the number of instructions
          MaxDepth    \* bound on the nesting of open constructs

VARIABLES prog, stack, syms, open, out, diags, std, panicked, hasAnnot
vars == <<prog, stack, syms, open, out, diags, std, panicked, hasAnnot>>

(***************************** types ****************************************)
(* model types and their Debug rendering in the real symbol table            *)
TInt == "Int(None, False)"          TCInt == "Int(None, True)"
TBit == "Bit(False)"                TBitReg == "BitArray(D1(2), False)"
TQubit == "Qubit"                   TQReg == "QubitArray(D1(2))"
TAngle == "Angle(None, True)"       TF64C == "Float(Some(64), True)"
TIntLit == "Int(Some(128), True)"   TUndef == "Undefined"
TVoid == "Void"
TGate(np, nq) == "Gate(" \o ToString(np) \o ", " \o ToString(nq) \o ")"
TDef(np) == "SubroutineDef(SubroutineDef { num_params: " \o ToString(np) \o ", return_type: Void })"

IsGateT(t) == \E np \in 0..4, nq \in 0..4 : t = TGate(np, nq)
GateArity(t) == CHOOSE p \in (0..4) \X (0..4) : t = TGate(p[1], p[2])
IsQuantumT(t) == t \in {TQubit, TQReg}
(* Type::is_const(): the flag for scalar types, TRUE for everything without one *)
IsConstT(t) == t \notin {TInt, TBit, TBitReg}
IntLike(t) == t \in {TInt, TCInt}
EqUpToConst(t1, t2) == t1 = t2 \/ (IntLike(t1) /\ IntLike(t2))
(* promote_types_not_equal on the model's type domain *)
PromoteNE(t1, t2) ==
  CASE IntLike(t1) /\ IntLike(t2) -> (IF t1 = TCInt /\ t2 = TCInt THEN TCInt ELSE TInt)
    [] IntLike(t1) /\ t2 = TIntLit -> (IF t1 = TCInt THEN "Int(Some(128), True)" ELSE "Int(Some(128), False)")
    [] t1 = TIntLit /\ IntLike(t2) -> (IF t2 = TCInt THEN "Int(Some(128), True)" ELSE "Int(Some(128), False)")
    [] t1 = TIntLit /\ t2 = TIntLit -> TIntLit
    [] (IntLike(t1) \/ t1 = TIntLit) /\ t2 = TF64C -> TF64C
    [] t1 = TF64C /\ (IntLike(t2) \/ t2 = TIntLit) -> TF64C
    [] t1 = TF64C /\ t2 = TF64C -> TF64C
    [] OTHER -> TVoid
Promote(t1, t2) == IF EqUpToConst(t1, t2) \/ t1 = t2 THEN t1 ELSE PromoteNE(t1, t2)

(***************************** symbol table *********************************)
Builtins == << [name |-> "pi", type |-> TF64C], [name |-> "pi_u", type |-> TF64C], [name |-> "euler", type |-> TF64C],
               [name |-> "euler_u", type |-> TF64C], [name |-> "tau", type |-> TF64C], [name |-> "tau_u", type |-> TF64C],
               [name |-> "U", type |-> TGate(3, 1)] >>
StdGates == << <<"x", 0, 1>>, <<"y", 0, 1>>, <<"z", 0, 1>>, <<"h", 0, 1>>, <<"s", 0, 1>>, <<"sdg", 0, 1>>, <<"t", 0, 1>>, <<"tdg", 0, 1>>,
               <<"sx", 0, 1>>, <<"id", 0, 1>>, <<"p", 1, 1>>, <<"rx", 1, 1>>, <<"ry", 1, 1>>, <<"rz", 1, 1>>, <<"phase", 1, 1>>, <<"u1", 1, 1>>,
               <<"u2", 2, 1>>, <<"u3", 3, 1>>, <<"cx", 0, 2>>, <<"cy", 0, 2>>, <<"cz", 0, 2>>, <<"ch", 0, 2>>, <<"swap", 0, 2>>, <<"CX", 0, 2>>,
               <<"cp", 1, 2>>, <<"crx", 1, 2>>, <<"cry", 1, 2>>, <<"crz", 1, 2>>, <<"cphase", 1, 2>>, <<"cu", 4, 2>>, <<"ccx", 0, 3>>, <<"cswap", 0, 3>> >>

NoMap == [n \in {} |-> 0]
Put(m, n, id) == [x \in DOMAIN m \cup {n} |-> IF x = n THEN id ELSE m[x]]
Top(st) == st[Len(st)]
Holders(st, n) == { i \in 1..Len(st) : n \in DOMAIN st[i].map }
Find(st, n) == IF Holders(st, n) = {} THEN -1
               ELSE LET i == CHOOSE i \in Holders(st, n) : \A j \in Holders(st, n) : j <= i IN st[i].map[n]
TypeOf(sy, id) == IF id = -1 THEN TUndef ELSE sy[id + 1].type
InGlobal(st) == Len(st) = 1

(* new_binding: [st, sy, ok] *)
Bind(st, sy, n, t) ==
  IF n \in DOMAIN Top(st).map THEN [st |-> st, sy |-> sy, ok |-> FALSE, id |-> -1]
  ELSE [st |-> [st EXCEPT ![Len(st)].map = Put(@, n, Len(sy))], sy |-> Append(sy, [name |-> n, type |-> t]), ok |-> TRUE, id |-> Len(sy)]
Enter(st, k) == Append(st, [kind |-> k, map |-> NoMap])
Exit(st) == SubSeq(st, 1, Len(st) - 1)

RefOf(id) == IF id = -1 THEN "Err" ELSE id          \* how a symbol reference appears in the graph

(***************************** expressions **********************************)
(* an expression is [k |-> "lit"] | [k |-> "use", n] | [k |-> "measure", n]   *)
(* Eval: [type, diags, skel] in the current table                             *)
OperandCheck(t) == IF t \in {TQubit, TQReg} THEN <<>> ELSE <<"IncompatibleTypesError">>
EvalExpr(st, sy, e) ==
  CASE e.k = "lit" -> [type |-> TIntLit, diags |-> <<>>, skel |-> <<"Lit", "Int", "1">>]
    [] e.k = "use" -> LET id == Find(st, e.n) IN
         [type |-> TypeOf(sy, id), diags |-> IF id = -1 THEN <<"UndefVarError">> ELSE <<>>, skel |-> <<"Identifier", RefOf(id)>>]
    [] e.k = "measure" -> LET id == Find(st, e.n)  t == TypeOf(sy, id) IN
         [type |-> IF t = TQubit THEN TBit ELSE IF t = TQReg THEN TBitReg ELSE TUndef,
          diags |-> (IF id = -1 THEN <<"UndefVarError">> ELSE <<>>) \o OperandCheck(t),
          skel |-> <<"Measure", <<"Identifier", RefOf(id)>> >>]
    [] e.k = "none" -> [type |-> TVoid, diags |-> <<>>, skel |-> <<"None">>]

(* gate operands: look-up each, must be quantum *)
RECURSIVE EvalOperands(_, _, _)
EvalOperands(st, sy, qs) ==
  IF qs = <<>> THEN [diags |-> <<>>, skel |-> <<>>]
  ELSE LET id == Find(st, qs[1])  t == TypeOf(sy, id)  rest == EvalOperands(st, sy, Tail(qs)) IN
       [diags |-> (IF id = -1 THEN <<"UndefVarError">> ELSE <<>>) \o OperandCheck(t) \o rest.diags,
        skel |-> << <<"Identifier", RefOf(id)>> >> \o rest.skel]

(***************************** state ***************************************)
InitStack == << [kind |-> "Global", map |-> [n \in {Builtins[i].name : i \in 1..Len(Builtins)} |->
                                              (CHOOSE i \in 1..Len(Builtins) : Builtins[i].name = n) - 1]] >>
Init ==
  /\ prog = <<>> /\ stack = InitStack /\ syms = Builtins
  /\ open = <<>> /\ out = << <<>> >> /\ diags = <<>> /\ std = FALSE /\ panicked = FALSE /\ hasAnnot = FALSE

(* between `switch (c) {` and its `}` only case / default blocks may appear *)
InSwitchHeader == open # <<>> /\ open[Len(open)].kind = "switch"
CanEmit == ~panicked /\ Len(prog) < MaxStmts /\ ~InSwitchHeader
(* a construct with a single-statement body may not be followed by "close"; it closes by itself *)
TopOpen == open[Len(open)]
InSingle == open # <<>> /\ ~TopOpen.block

(***************************************************************************)
(* Finishing a statement: append its skeleton to the innermost open body;   *)
(* pending annotations wrap it; a single-statement body closes (cascading). *)
(* Closing a construct performs the scope exit and the bindings the code     *)
(* does after the body (gate / def names).                                   *)
(***************************************************************************)
(* syntax_to_semantic attaches the pending annotations to the next statement inserted into the    *)
(* PROGRAM (top level); statements inside blocks are never wrapped.                               *)
AppendStmt(s, lists, node) ==
  LET top == Len(lists) = 1
      n2 == IF top /\ s.ann THEN <<"Annotated", node>> ELSE node
  IN [s EXCEPT !.out = [lists EXCEPT ![Len(lists)] = Append(@, n2)], !.ann = IF top THEN FALSE ELSE s.ann]

RECURSIVE CloseAll(_)
CloseOne(s) ==
  LET c == s.open[Len(s.open)]
      body == s.out[Len(s.out)]
      outer == SubSeq(s.out, 1, Len(s.out) - 1)
      st1 == Exit(s.stack)
      popped == SubSeq(s.open, 1, Len(s.open) - 1)
  IN CASE c.kind \in {"if", "else", "while", "for"} ->
            LET node == CASE c.kind = "if" -> <<"If", c.cond, body, FALSE, <<>> >>
                          [] c.kind = "else" -> <<"If", c.cond, c.thenb, TRUE, body>>
                          [] c.kind = "while" -> <<"While", c.cond, body>>
                          [] c.kind = "for" -> <<"For", c.var, c.it, body>>
            IN AppendStmt([s EXCEPT !.stack = st1, !.open = popped, !.ann = (s.ann \/ (c.kind = "else" /\ c.wasAnn))], outer, node)
       (* a case / default block: its Local scope is left; the block becomes an entry of the enclosing switch *)
       [] c.kind \in {"case", "default"} ->
            AppendStmt([s EXCEPT !.stack = st1,
                                 !.open = IF c.kind = "default" THEN [popped EXCEPT ![Len(popped)].hasDefault = TRUE] ELSE popped],
                       outer, <<IF c.kind = "case" THEN "Case" ELSE "Default", body>>)
       (* the closing brace of the switch: no scope of its own; body = its Case / Default entries in order *)
       [] c.kind = "switch" ->
            AppendStmt([s EXCEPT !.open = popped], outer, <<"Switch", c.cond, body>>)
       [] c.kind = "gate" ->
            LET b == Bind(st1, s.syms, c.name, TGate(Len(c.ps), Len(c.qs)))
                node == <<"GateDefinition", IF b.ok THEN b.id ELSE "Err", c.pids, c.qids, body>>
            IN AppendStmt([s EXCEPT !.stack = b.st, !.syms = b.sy, !.open = popped,
                                    !.diags = @ \o (IF b.ok THEN <<>> ELSE <<"RedeclarationError">>)], outer, node)
       [] c.kind = "def" ->
            LET b == Bind(st1, s.syms, c.name, TDef(Len(c.ps)))
                node == <<"DefStmt", IF b.ok THEN b.id ELSE "Err", c.pids, body>>
            IN AppendStmt([s EXCEPT !.stack = b.st, !.syms = b.sy, !.open = popped,
                                    !.diags = @ \o (IF b.ok THEN <<>> ELSE <<"RedeclarationError">>)], outer, node)
CloseAll(s) == IF s.open # <<>> /\ ~s.open[Len(s.open)].block THEN CloseAll(CloseOne(s)) ELSE s

Pack == [stack |-> stack, syms |-> syms, open |-> open, out |-> out, diags |-> diags, ann |-> hasAnnot]
Unpack(s) == /\ stack' = s.stack /\ syms' = s.syms /\ open' = s.open /\ out' = s.out /\ diags' = s.diags /\ hasAnnot' = s.ann

(* append a finished simple statement (skeleton sk, new table st/sy, new diagnostics ds) *)
Finish(ins, st, sy, ds, sk, emits) ==
  LET s0 == [Pack EXCEPT !.stack = st, !.syms = sy, !.diags = diags \o ds]
      s1 == CloseAll(AppendStmt(s0, out, sk))
  IN /\ Unpack(s1)
     /\ prog' = Append(prog, ins)
     /\ UNCHANGED <<std, panicked>>

(***************************** simple statements ****************************)
DeclTypes == {"int", "cint", "bit"}
DeclT(ty) == CASE ty = "int" -> TInt [] ty = "cint" -> TCInt [] ty = "bit" -> TBit

(* classical_declaration_statement_to_asg_stmt *)
Decl(ty, n, init) ==
  LET L == DeclT(ty)
      ev == EvalExpr(stack, syms, init)                       \* initializer first ...
      b  == Bind(stack, syms, n, L)                            \* ... then the name is bound
      T  == ev.type
      redecl == IF b.ok THEN <<>> ELSE <<"RedeclarationError">>
      direct == init.k = "none" \/ EqUpToConst(L, T)
      litpath == ~direct /\ init.k = "lit"
      litok == litpath /\ L \in {TInt, TCInt}                  \* can_cast_literal(L, Int)
      prom == PromoteNE(L, T)
      castok == ~direct /\ ~litpath /\ EqUpToConst(prom, L)
      typeerr == (litpath /\ ~litok) \/ (~direct /\ ~litpath /\ ~castok /\ (prom = TVoid \/ prom = T))
      (* declare_classical_helper records the constant value only when the binding succeeded *)
      sk == <<"DeclareClassical", IF b.ok THEN b.id ELSE "Err", IF init.k = "none" THEN <<"None">> ELSE ev.skel>>
      ins == [op |-> "decl", ty |-> ty, n |-> n, init |-> init]
  IN Finish(ins, b.st, b.sy, ev.diags \o redecl \o (IF typeerr THEN <<"IncompatibleTypesError">> ELSE <<>>), sk, TRUE)

(* QuantumDeclarationStatement *)
QDecl(n, reg) ==
  LET pre == IF InGlobal(stack) THEN <<>> ELSE <<"NotInGlobalScopeError">>
      b == Bind(stack, syms, n, IF reg THEN TQReg ELSE TQubit)
  IN Finish([op |-> IF reg THEN "qreg" ELSE "qubit", n |-> n], b.st, b.sy,
            pre \o (IF b.ok THEN <<>> ELSE <<"RedeclarationError">>),
            <<"DeclareQuantum", IF b.ok THEN b.id ELSE "Err">>, TRUE)

(* assignment_stmt_to_asg_stmt, identifier on the left *)
Assign(n, rhs) ==
  LET ev == EvalExpr(stack, syms, rhs)                         \* right-hand side first
      id == Find(stack, n)
      S == TypeOf(syms, id)   T == ev.type
      ok == id # -1
      typeerr == ok /\ T # S /\ ~(S = TQReg /\ T = TQReg) /\ rhs.k # "lit" /\ Promote(S, T) # S
      ds == ev.diags \o (IF ok THEN <<>> ELSE <<"UndefVarError">>)
            \o (IF typeerr THEN <<"IncompatibleTypesError">> ELSE <<>>)
            \o (IF ok /\ IsConstT(S) THEN <<"MutateConstError">> ELSE <<>>)
  IN Finish([op |-> "assign", n |-> n, rhs |-> rhs], stack, syms, ds, <<"Assignment", <<"Identifier", RefOf(id)>>, ev.skel>>, TRUE)

(* gate_call_expr_to_asg_stmt *)
GateCall(g, np, qs, mod) ==
  LET ops == EvalOperands(stack, syms, qs)                     \* operands, then parameters, then the gate name
      id == Find(stack, g)
      G == TypeOf(syms, id)
      ar == IF IsGateT(G) THEN GateArity(G) ELSE <<0, 0>>
      ds == ops.diags
            \o (IF id = -1 THEN <<"UndefGateError">> ELSE <<>>)
            \o (IF IsGateT(G) /\ ar[1] # np THEN <<"NumGateParamsError">> ELSE <<>>)
            \o (IF IsGateT(G) /\ ar[2] # Len(qs) THEN <<"NumGateQubitsError">> ELSE <<>>)
            \o (IF id # -1 /\ ~IsGateT(G) THEN <<"IncompatibleTypesError">> ELSE <<>>)
  IN Finish([op |-> "gatecall", g |-> g, np |-> np, qs |-> qs, mod |-> mod], stack, syms, ds,
            <<"GateCall", RefOf(id), np, ops.skel, mod>>, TRUE)

(* expression statement "l op r" over identifier uses: no binary operator accepts a quantum operand  *)
(* (IncompatibleTypesError per quantum operand, left first); OpName is the graph construct the      *)
(* operator must map to (R: same meaning).                                                          *)
OpName(op) == CASE op = "+" -> "Add" [] op = "-" -> "Sub" [] op = "*" -> "Mul" [] op = "/" -> "Div" [] op = "%" -> "Rem"
                [] op = "<<" -> "Shl" [] op = ">>" -> "Shr" [] op = "&" -> "BitAnd" [] op = "|" -> "BitOr" [] op = "^" -> "BitXOr"
                [] op = "==" -> "Eq" [] op = "!=" -> "Neq" [] op = "**" -> "Power" [] op = "++" -> "Concatenation"
BinOpsM == {"+", "-", "*", "/", "%", "<<", ">>", "&", "|", "^", "==", "!=", "**", "++"}
BinStmt(op, l, r) ==
  LET el == EvalExpr(stack, syms, [k |-> "use", n |-> l])
      er == EvalExpr(stack, syms, [k |-> "use", n |-> r])
      ds == el.diags \o er.diags
            \o (IF IsQuantumT(el.type) THEN <<"IncompatibleTypesError">> ELSE <<>>)
            \o (IF IsQuantumT(er.type) THEN <<"IncompatibleTypesError">> ELSE <<>>)
  IN Finish([op |-> "bin", o |-> op, l |-> l, r |-> r], stack, syms, ds, <<"ExprStmt", <<"Bin", OpName(op), el.skel, er.skel>> >>, TRUE)

(* expression statement consisting of one literal of each class; a minus sign directly applied to a *)
(* numeric literal yields the negated literal                                                       *)
LitForms == { <<"1", "Int", "1">>, <<"-3", "Int", "-3">>, <<"2.5", "Float", "2.5">>, <<"-2.5", "Float", "-2.5">>,
              <<"2im", "ImaginaryInt", "2">>, <<"-2im", "ImaginaryInt", "-2">>, <<"2.5im", "ImaginaryFloat", "2.5">>,
              <<"-2.5 im", "ImaginaryFloat", "-2.5">>, <<"true", "Bool", "true">>, <<"\"0101\"", "BitString", "0101">>,
              <<"10%%SEP;ns", "TimingIntLiteral", "10">>, <<"2.5%%SEP;us", "TimingFloatLiteral", "2.5">>,
              <<"10%%SEP;%%00B5;s", "TimingIntLiteral", "10">>, <<"3%%SEP;dt", "TimingIntLiteral", "3">>, <<"4%%SEP;ms", "TimingIntLiteral", "4">>,
              <<"1.5%%SEP;s", "TimingFloatLiteral", "1.5">>, <<"7%%SEP;im", "ImaginaryInt", "7">> }
(* %%SEP; marks a token boundary where trivia is optional (number | unit): the harness glues the two tokens in some layouts *)
(* and separates them in others (C17); %%00B5; is the micro sign.                                                         *)
LitStmt(f) == Finish([op |-> "litstmt", t |-> f[1]], stack, syms, <<>>, <<"ExprStmt", <<"Lit", f[2], f[3]>> >>, TRUE)

UseStmt(n) ==
  LET ev == EvalExpr(stack, syms, [k |-> "use", n |-> n])
  IN Finish([op |-> "use", n |-> n], stack, syms, ev.diags, <<"ExprStmt", ev.skel>>, TRUE)

Reset(n) ==
  LET ops == EvalOperands(stack, syms, <<n>>)
  IN Finish([op |-> "reset", n |-> n], stack, syms, ops.diags, <<"Reset", ops.skel[1]>>, TRUE)
Barrier(qs) ==
  LET ops == EvalOperands(stack, syms, qs)
  IN Finish([op |-> "barrier", qs |-> qs], stack, syms, ops.diags, <<"Barrier", ops.skel>>, TRUE)
Delay(qs) ==
  LET ops == EvalOperands(stack, syms, qs)
  IN Finish([op |-> "delay", qs |-> qs], stack, syms, ops.diags, <<"Delay", ops.skel>>, TRUE)

(***************************** indexed identifiers ***************************)
(* indexed_identifier_to_asg_type: the identifier is looked up first, then the index operators are translated in source  *)
(* order; the expression keeps one IndexOperator per pair of brackets (a chained a[1][0] is two operators, a[0, 1] is one *)
(* operator with two expressions, a[{0, 1}] a set, a[0:1] a list holding a range); the type is the SYMBOL's type.        *)
IxForms == {"i", "ii", "m", "s", "r", "n"}
IxRoles == {"expr", "reset", "measure", "lhs"}
IxLit(t) == <<"Lit", "Int", t>>
IxOps(ix, xs) ==
  CASE ix = "i"  -> << <<"List", <<IxLit("0")>> >> >>
    [] ix = "ii" -> << <<"List", <<IxLit("1")>> >>, <<"List", <<IxLit("0")>> >> >>
    [] ix = "m"  -> << <<"List", <<IxLit("0"), IxLit("1")>> >> >>
    [] ix = "s"  -> << <<"Set", <<IxLit("0"), IxLit("1")>> >> >>
    [] ix = "r"  -> << <<"List", << <<"Range", IxLit("0"), <<"None">>, IxLit("1")>> >> >> >>
    [] ix = "n"  -> << <<"List", <<xs>> >> >>
IxCount(ix) == IF ix = "ii" THEN 2 ELSE 1          \* number of index operators
IxDims(ix) == IF ix = "m" THEN 2 ELSE 1            \* num_dims of the first operator
DimsOfT(t) == IF t = TQReg THEN 1 ELSE 0           \* Type::num_dims
EvalIx(st, sy, n, ix, x) ==
  LET id == Find(st, n)
      xe == EvalExpr(st, sy, [k |-> "use", n |-> x])
  IN [id |-> id, type |-> TypeOf(sy, id),
      diags |-> (IF id = -1 THEN <<"UndefVarError">> ELSE <<>>) \o (IF ix = "n" THEN xe.diags ELSE <<>>),
      skel |-> <<"Indexed", RefOf(id), IxOps(ix, xe.skel)>>]
(* gate_operand_to_asg_texpr: an indexed operand must be a qubit REGISTER; assignment_stmt_to_asg_stmt, indexed target:   *)
(* a single operator with more dimensions than the symbol has is reported, then the right-hand side is translated, and    *)
(* a const target is reported last (as on the identifier path).                                                          *)
IxStmt(role, n, ix, x) ==
  LET e == EvalIx(stack, syms, n, ix, x)
      ins == [op |-> "ix", role |-> role, n |-> n, ix |-> ix, x |-> x]
      opcheck == IF e.type = TQReg THEN <<>> ELSE <<"IncompatibleTypesError">>
      toomany == IF IxCount(ix) = 1 /\ IxDims(ix) > DimsOfT(e.type) THEN <<"TooManyIndexes">> ELSE <<>>
      mutate == IF e.id # -1 /\ IsConstT(e.type) THEN <<"MutateConstError">> ELSE <<>>
  IN CASE role = "expr"    -> Finish(ins, stack, syms, e.diags, <<"ExprStmt", e.skel>>, TRUE)
       [] role = "reset"   -> Finish(ins, stack, syms, e.diags \o opcheck, <<"Reset", e.skel>>, TRUE)
       [] role = "measure" -> Finish(ins, stack, syms, e.diags \o opcheck, <<"ExprStmt", <<"Measure", e.skel>> >>, TRUE)
       [] role = "lhs"     -> Finish(ins, stack, syms, e.diags \o toomany \o mutate, <<"Assignment", e.skel, IxLit("1")>>, TRUE)

(* gphase(angle), possibly modified: the graph keeps the modifier sequence (ModifiedGPhaseCall) *)
GPhase(md) == Finish([op |-> "gphase", mod |-> md], stack, syms, <<>>, <<"GPhase", md>>, TRUE)

Return(e) ==
  LET ev == EvalExpr(stack, syms, e)
      ds == ev.diags \o (IF Top(stack).kind = "Global" THEN <<"ReturnInGlobalScopeError">> ELSE <<>>)
  IN Finish([op |-> "return", e |-> e], stack, syms, ds, <<"ExprStmt", <<"Return", ev.skel>> >>, TRUE)

Break == Finish([op |-> "break"], stack, syms, <<>>, <<"Break">>, TRUE)
Pragma == Finish([op |-> "pragma"], stack, syms, <<>>, <<"Pragma">>, TRUE)

(* an annotation is kept pending and attached to the next emitted statement *)
Annot ==
  /\ ~hasAnnot /\ open = <<>>          \* top level only (see AppendStmt)
  /\ prog' = Append(prog, [op |-> "annot"]) /\ hasAnnot' = TRUE
  /\ UNCHANGED <<stack, syms, open, out, diags, std, panicked>>

(* include "stdgates.inc": only at file level (the top-level loop handles it) *)
RECURSIVE BindStd(_, _, _)
BindStd(st, sy, i) ==
  IF i > Len(StdGates) THEN [st |-> st, sy |-> sy, ds |-> <<>>]
  ELSE LET b == Bind(st, sy, StdGates[i][1], TGate(StdGates[i][2], StdGates[i][3]))
           rest == BindStd(b.st, b.sy, i + 1)
       IN [st |-> rest.st, sy |-> rest.sy, ds |-> (IF b.ok THEN <<>> ELSE <<"RedeclarationError">>) \o rest.ds]
IncludeStd ==
  /\ open = <<>> /\ ~hasAnnot
  /\ LET r == BindStd(stack, syms, 1) IN
       /\ stack' = r.st /\ syms' = r.sy /\ diags' = diags \o r.ds
  /\ prog' = Append(prog, [op |-> "std"]) /\ std' = TRUE
  /\ UNCHANGED <<open, out, panicked, hasAnnot>>

(***************************** compound statements **************************)
PushOpen(c, st, sy, ds, ins) ==
  /\ open' = Append(open, c) /\ out' = Append(out, <<>>)
  /\ stack' = st /\ syms' = sy /\ diags' = diags \o ds
  /\ prog' = Append(prog, ins)
  /\ UNCHANGED <<std, panicked, hasAnnot>>

CondSkel(cn) == EvalExpr(stack, syms, [k |-> "use", n |-> cn])

(* IfStmt: condition in the current scope, then a Local scope for the true body *)
OpenIf(cn, block) ==
  LET ev == CondSkel(cn) IN
  PushOpen([kind |-> "if", block |-> block, cond |-> ev.skel], Enter(stack, "Local"), syms, ev.diags,
           [op |-> "if", c |-> cn, block |-> block])
OpenWhile(cn, block) ==
  LET ev == CondSkel(cn) IN
  PushOpen([kind |-> "while", block |-> block, cond |-> ev.skel], Enter(stack, "Local"), syms, ev.diags,
           [op |-> "while", c |-> cn, block |-> block])
(* ForStmt: the loop variable is bound in the body's scope *)
Iterables == {"r2", "r3", "set", "rn", "sn", "id"}
NameIters == {"rn", "sn", "id"}          \* iterables that mention a name x: [0:x], {1, x, 3}, x (the last with a braced body only:
                                         \* "for int i in x (1);" would read x(1) as the iterable)
IterSkel(it) == CASE it = "r2" -> <<"Range", <<"Lit", "Int", "0">>, <<"None">>, <<"Lit", "Int", "2">> >>
                  [] it = "r3" -> <<"Range", <<"Lit", "Int", "0">>, <<"Lit", "Int", "2">>, <<"Lit", "Int", "8">> >>
                  [] it = "set" -> <<"Set", << <<"Lit", "Int", "1">>, <<"Lit", "Int", "5">>, <<"Lit", "Int", "3">> >> >>
(* the iterable is translated in the ENCLOSING scope, before the loop scope is entered and the variable bound: a name in it *)
(* that equals the loop variable is the outer declaration (or undeclared), never the loop variable                         *)
IterEval(it, x) ==
  LET e == EvalExpr(stack, syms, [k |-> "use", n |-> x]) IN
  CASE it = "rn" -> [skel |-> <<"Range", <<"Lit", "Int", "0">>, <<"None">>, e.skel>>, diags |-> e.diags]
    [] it = "sn" -> [skel |-> <<"Set", << <<"Lit", "Int", "1">>, e.skel, <<"Lit", "Int", "3">> >> >>, diags |-> e.diags]
    [] it = "id" -> [skel |-> <<"Iter", e.skel>>, diags |-> e.diags]
    [] OTHER -> [skel |-> IterSkel(it), diags |-> <<>>]
OpenFor(v, it, x, block) ==
  LET iv == IterEval(it, x)
      b == Bind(Enter(stack, "Local"), syms, v, TInt) IN
  PushOpen([kind |-> "for", block |-> block, var |-> b.id, it |-> iv.skel], b.st, b.sy, iv.diags, [op |-> "for", v |-> v, it |-> it, x |-> x, block |-> block])

(* SwitchCaseStmt: the control expression in the current scope; every case block and the default block has its own   *)
(* Local scope; the braces of the switch itself open no scope.  Case values are integer literals.                   *)
OpenSwitch(cn) ==
  LET ev == CondSkel(cn) IN
  PushOpen([kind |-> "switch", block |-> TRUE, cond |-> ev.skel, hasDefault |-> FALSE], stack, syms, ev.diags,
           [op |-> "switch", c |-> cn, block |-> TRUE])
OpenCase ==
  /\ InSwitchHeader /\ ~TopOpen.hasDefault
  /\ PushOpen([kind |-> "case", block |-> TRUE], Enter(stack, "Local"), syms, <<>>, [op |-> "case", block |-> TRUE])
OpenDefault ==
  /\ InSwitchHeader /\ ~TopOpen.hasDefault
  /\ PushOpen([kind |-> "default", block |-> TRUE], Enter(stack, "Local"), syms, <<>>, [op |-> "default", block |-> TRUE])

(***************************************************************************)
(* Dangling else.  The instruction list is linear: "else" is meant for the   *)
(* if statement completed last at the current level.  When that if has an    *)
(* un-braced body which itself ends in an else-less if                        *)
(* (if (a) if (b) x; else y;) the text would bind the else to the NEAREST     *)
(* if, so such a list does not denote the program the model means and is      *)
(* never generated.  ElseFlags reads prog: per open level, for the statement  *)
(* completed last, d = "ends in an else-less if reachable without crossing a  *)
(* brace", e = "is an else-less if that an else can follow unambiguously".    *)
(***************************************************************************)
EFNone == [d |-> FALSE, e |-> FALSE]
Front(q) == SubSeq(q, 1, Len(q) - 1)
EFCloseTop(s) ==
  LET c == s.o[Len(s.o)]
      bd == s.f[Len(s.f)].d
      nf == CASE c.kind = "if" -> [d |-> TRUE, e |-> (c.braced \/ ~bd)]
              [] c.kind \in {"else", "while", "for"} -> [d |-> (IF c.braced THEN FALSE ELSE bd), e |-> FALSE]
              [] OTHER -> EFNone
  IN [o |-> Front(s.o), f |-> Append(Front(Front(s.f)), nf)]
RECURSIVE EFCloseSingles(_)
EFCloseSingles(s) == IF s.o # <<>> /\ ~s.o[Len(s.o)].braced THEN EFCloseSingles(EFCloseTop(s)) ELSE s
EFStep(s, ins) ==
  CASE ins.op \in {"if", "else", "while", "for", "switch", "case", "default", "gate", "def"} ->
         [o |-> Append(s.o, [kind |-> ins.op, braced |-> (IF ins.op \in {"gate", "def"} THEN TRUE ELSE ins.block)]), f |-> Append(s.f, EFNone)]
    [] ins.op = "close" -> EFCloseSingles(EFCloseTop(s))
    [] ins.op = "annot" -> s
    [] OTHER -> EFCloseSingles([s EXCEPT !.f = Append(Front(@), EFNone)])
RECURSIVE EFScan(_)
EFScan(p) == IF p = <<>> THEN [o |-> <<>>, f |-> <<EFNone>>] ELSE EFStep(EFScan(Front(p)), p[Len(p)])
ElseUnambiguous == LET s == EFScan(prog) IN s.f[Len(s.f)].e

(* else: only directly after the true body of an if has closed; the If node is re-opened *)
LastIsIf == LET cur == out[Len(out)] IN cur # <<>> /\ Len(cur[Len(cur)]) >= 1 /\
              (LET n == cur[Len(cur)] IN (n[1] = "If" /\ n[4] = FALSE) \/ (n[1] = "Annotated" /\ n[2][1] = "If" /\ n[2][4] = FALSE))
OpenElse(block) ==
  LET cur == out[Len(out)]
      last == cur[Len(cur)]
      ann == last[1] = "Annotated"
      node == IF ann THEN last[2] ELSE last
  IN /\ open' = Append(open, [kind |-> "else", block |-> block, cond |-> node[2], thenb |-> node[3], wasAnn |-> ann])
     /\ out' = Append([out EXCEPT ![Len(out)] = SubSeq(cur, 1, Len(cur) - 1)], <<>>)
     /\ stack' = Enter(stack, "Local")
     /\ prog' = Append(prog, [op |-> "else", block |-> block])
     /\ UNCHANGED <<syms, diags, std, panicked, hasAnnot>>

RECURSIVE BindAll(_, _, _, _)
BindAll(st, sy, ns, t) ==
  IF ns = <<>> THEN [st |-> st, sy |-> sy, ids |-> <<>>, ds |-> <<>>]
  ELSE LET b == Bind(st, sy, ns[1], t)  rest == BindAll(b.st, b.sy, Tail(ns), t) IN
       [st |-> rest.st, sy |-> rest.sy, ids |-> <<IF b.ok THEN b.id ELSE "Err">> \o rest.ids,
        ds |-> (IF b.ok THEN <<>> ELSE <<"RedeclarationError">>) \o rest.ds]

(* Gate definition: scope check, Subroutine scope, angle parameters, qubits, body; the name is bound AFTER the body *)
OpenGate(n, ps, qs) ==
  LET pre == IF InGlobal(stack) THEN <<>> ELSE <<"NotInGlobalScopeError">>
      bp == BindAll(Enter(stack, "Subroutine"), syms, ps, TAngle)
      bq == BindAll(bp.st, bp.sy, qs, TQubit)
  IN PushOpen([kind |-> "gate", block |-> TRUE, name |-> n, ps |-> ps, qs |-> qs, pids |-> bp.ids, qids |-> bq.ids],
              bq.st, bq.sy, pre \o bp.ds \o bq.ds, [op |-> "gate", n |-> n, ps |-> ps, qs |-> qs])
OpenDef(n, ps) ==
  LET pre == IF InGlobal(stack) THEN <<>> ELSE <<"NotInGlobalScopeError">>
      bp == BindAll(Enter(stack, "Subroutine"), syms, ps, TInt)
  IN PushOpen([kind |-> "def", block |-> TRUE, name |-> n, ps |-> ps, pids |-> bp.ids],
              bp.st, bp.sy, pre \o bp.ds, [op |-> "def", n |-> n, ps |-> ps])

Close ==
  /\ open # <<>> /\ TopOpen.block
  (* the grammar wants at least one case or default block between the braces of a switch *)
  /\ (TopOpen.kind = "switch" => out[Len(out)] # <<>>)
  /\ LET s1 == CloseAll(CloseOne(Pack)) IN Unpack(s1)
  /\ prog' = Append(prog, [op |-> "close"])
  /\ UNCHANGED <<std, panicked>>

(***************************** next-state **********************************)
Exprs == {[k |-> "lit"]} \cup {[k |-> "use", n |-> n] : n \in Names}
RHS == Exprs \cup {[k |-> "measure", n |-> n] : n \in Names}
Inits == Exprs \cup {[k |-> "none"]}
QLists == {<<n>> : n \in Names} \cup {<<n, m>> : n \in Names, m \in Names}
CanOpen == Len(open) < MaxDepth

(* gate modifiers: the names of the modifiers in source order joined by '+'; the graph must keep that order *)
GateMods == {"none", "inv", "pow", "inv+pow", "pow+inv", "ctrl", "inv+ctrl", "ctrl+inv", "negctrl+pow", "pow+negctrl+inv"}
SDecl    == CanEmit /\ \E ty \in DeclTypes, n \in Names, i \in Inits : (ty = "cint" => i.k # "none") /\ Decl(ty, n, i)
SQDecl   == CanEmit /\ \E n \in Names, reg \in BOOLEAN : QDecl(n, reg)
SAssign  == CanEmit /\ \E n \in Names, e \in RHS : Assign(n, e)
SGateCall == CanEmit /\ \E g \in Names, np \in 0..1, qs \in QLists, md \in GateMods : GateCall(g, np, qs, md)
SUse     == CanEmit /\ \E n \in Names : UseStmt(n)
SReset   == CanEmit /\ \E n \in Names : Reset(n)
SBarrier == CanEmit /\ \E qs \in QLists : Barrier(qs)
SDelay   == CanEmit /\ \E qs \in QLists : Delay(qs)
SReturn  == CanEmit /\ \E e \in {[k |-> "none"]} \cup {[k |-> "use", n |-> n] : n \in Names} : Return(e)
SBreak   == CanEmit /\ Break
SPragma  == CanEmit /\ Pragma
SAnnot   == CanEmit /\ Annot
SStd     == CanEmit /\ ~std /\ IncludeStd
SIf      == CanEmit /\ CanOpen /\ \E cn \in Names, bl \in BOOLEAN : OpenIf(cn, bl)
SElse    == CanEmit /\ CanOpen /\ ~InSingle /\ LastIsIf /\ ElseUnambiguous /\ \E bl \in BOOLEAN : OpenElse(bl)
SWhile   == CanEmit /\ CanOpen /\ \E cn \in Names, bl \in BOOLEAN : OpenWhile(cn, bl)
SFor     == CanEmit /\ CanOpen /\ \E v \in Names, it \in Iterables, x \in Names, bl \in BOOLEAN : (it \notin NameIters => x = v) /\ (it = "id" => bl) /\ OpenFor(v, it, x, bl)
SGPhase  == CanEmit /\ \E md \in GateMods : GPhase(md)
SBin     == CanEmit /\ \E o \in BinOpsM, l \in Names, r \in Names : BinStmt(o, l, r)
SIx      == CanEmit /\ \E role \in IxRoles, n \in Names, ix \in IxForms, x \in Names : (ix # "n" => x = n) /\ IxStmt(role, n, ix, x)
SLit     == CanEmit /\ \E f \in LitForms : LitStmt(f)
(* the statement just emitted once more (two identical consecutive statements: equal texts, equal diagnostics in a row) *)
LastIns == prog[Len(prog)]
SRepeat  == CanEmit /\ prog # <<>> /\
            (CASE LastIns.op = "assign" -> Assign(LastIns.n, LastIns.rhs)
               [] LastIns.op = "gatecall" -> GateCall(LastIns.g, LastIns.np, LastIns.qs, LastIns.mod)
               [] LastIns.op = "bin" -> BinStmt(LastIns.o, LastIns.l, LastIns.r)
               [] LastIns.op = "use" -> UseStmt(LastIns.n)
               [] LastIns.op = "reset" -> Reset(LastIns.n)
               [] LastIns.op = "barrier" -> Barrier(LastIns.qs)
               [] LastIns.op = "delay" -> Delay(LastIns.qs)
               [] OTHER -> FALSE)
SSwitch  == CanEmit /\ CanOpen /\ \E cn \in Names : OpenSwitch(cn)
SCase    == ~panicked /\ Len(prog) < MaxStmts /\ CanOpen /\ OpenCase
SDefault == ~panicked /\ Len(prog) < MaxStmts /\ CanOpen /\ OpenDefault
SGate    == CanEmit /\ CanOpen /\ \E n \in Names, ps \in {<<>>} \cup {<<p>> : p \in Names}, qs \in QLists \cup {<<>>} : OpenGate(n, ps, qs)
SDef     == CanEmit /\ CanOpen /\ \E n \in Names, ps \in {<<>>} \cup {<<p>> : p \in Names} : OpenDef(n, ps)
SClose   == ~panicked /\ Close

Next == SDecl \/ SQDecl \/ SAssign \/ SGateCall \/ SUse \/ SReset \/ SBarrier \/ SDelay \/ SReturn \/ SBreak \/ SPragma \/ SAnnot
        \/ SStd \/ SIf \/ SElse \/ SWhile \/ SFor \/ SGate \/ SDef \/ SClose \/ SBin \/ SLit \/ SIx \/ SGPhase \/ SRepeat \/ SSwitch \/ SCase \/ SDefault
Spec == Init /\ [][Next]_vars

(***************************** invariants of M ******************************)
(* with_scope! pairing: the scope depth always equals 1 + number of open constructs *)
ScopeDepthMatchesNesting == Len(stack) = 1 + Cardinality({i \in 1..Len(open) : open[i].kind # "switch"}) /\ Len(out) = 1 + Len(open)
(* C03/C07: when nothing is open the table is back to the single global scope *)
BackToGlobal == open = <<>> => (Len(stack) = 1 /\ stack[1].kind = "Global")
IdsDense == \A i \in 1..Len(stack) : \A n \in DOMAIN stack[i].map : stack[i].map[n] \in 0..(Len(syms) - 1) /\ syms[stack[i].map[n] + 1].name = n

(* a complete program: nothing open, no dangling annotation, last open construct closed *)
Complete == open = <<>> /\ ~hasAnnot /\ prog # <<>>
=============================================================================
