SPECIFICATION Spec
CONSTANTS
  GateMods <- GateModsSmall
  Names = {"a"}
  MaxStmts = 7
  MaxDepth = 2
CONSTRAINT FocusSwitch
INVARIANTS ScopeDepthMatchesNesting BackToGlobal IdsDense MSatisfiesR Emit
CHECK_DEADLOCK FALSE
