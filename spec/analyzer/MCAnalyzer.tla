---------------------------- MODULE MCAnalyzer ----------------------------
(* Model-checking / generation harness for Analyzer: invariants of M, M |= R   *)
(* (Scoping, UsageRules), and one CASE line per complete program (B1).         *)
EXTENDS Analyzer, Json

CaseRec == [prog |-> prog, syms |-> syms, diags |-> diags, skel |-> out[1], panic |-> panicked]
Emit == Complete => PrintT(<<"CASE", ToJson(CaseRec)>>)
(* in simulation mode only long programs are printed *)
EmitLong == (Complete /\ Len(prog) >= MaxStmts - 1) => PrintT(<<"CASE", ToJson(CaseRec)>>)
=============================================================================
