---------------------------- MODULE MCAnalyzer ----------------------------
(* Model-checking / generation harness for Analyzer: invariants of M, M |= R   *)
(* (Scoping, UsageRules), and one CASE line per complete program (B1).         *)
EXTENDS Analyzer, Json
(* NB: CaseRec is defined after Req *)

(***************************************************************************)
(* M |= R: the requirement specs read the program `prog` on their own and   *)
(* the machine spec's state must agree with them.                           *)
(***************************************************************************)
R == INSTANCE AnalyzerReq WITH StdLib <- StdGates
Req == R!Run(prog)

(* C07 Scoping: every name resolves, in the machine's table, to the declaration R prescribes *)
ScopingOn(r) ==
    /\ \A n \in Names \cup {"U", "pi", "h", "cx", "rx"} : Find(stack, n) = R!Resolve(r, n).ord
    /\ Len(syms) = r.ord
    /\ Cardinality({i \in 1..Len(diags) : diags[i] = "RedeclarationError"}) = r.redecl
    /\ Cardinality({i \in 1..Len(diags) : diags[i] \in {"UndefVarError", "UndefGateError"}}) = r.undef
ScopingHolds == ~panicked => ScopingOn(Req)

(* C13 UsageRules: for every kind the number of diagnostics lies in the required interval *)
Count(k) == Cardinality({i \in 1..Len(diags) : diags[i] = k})
UsageOn(r) == \A k \in R!Kinds13 : r.need[k].min <= Count(k) /\ Count(k) <= r.need[k].max
UsageHolds == ~panicked => UsageOn(Req)

(* C06 AsgShape: statement kinds, nesting and order *)
RECURSIVE ShapeOfM(_), ShapeList(_)
ShapeList(l) == [i \in 1..Len(l) |-> ShapeOfM(l[i])]
ShapeOfM(n) ==
  CASE n[1] = "DeclareClassical" -> "decl" [] n[1] = "DeclareQuantum" -> "qdecl" [] n[1] = "Assignment" -> "assign"
    [] n[1] = "GateCall" -> "gatecall" [] n[1] = "ExprStmt" -> "exprstmt" [] n[1] = "Reset" -> "reset" [] n[1] = "Barrier" -> "barrier"
    [] n[1] = "Delay" -> "delay" [] n[1] = "GPhase" -> "gphase" [] n[1] = "Break" -> "break" [] n[1] = "Pragma" -> "pragma"
    [] n[1] = "If" -> <<"if", ShapeList(n[3]), n[4], ShapeList(n[5])>>
    [] n[1] = "While" -> <<"while", ShapeList(n[3])>>
    [] n[1] = "For" -> <<"for", ShapeList(n[4])>>
    [] n[1] = "GateDefinition" -> <<"gate", ShapeList(n[5])>>
    [] n[1] = "DefStmt" -> <<"def", ShapeList(n[4])>>
    [] n[1] = "Switch" -> <<"switch", ShapeList(n[3])>>
    [] n[1] = "Case" -> <<"case", ShapeList(n[2])>>
    [] n[1] = "Default" -> <<"default", ShapeList(n[2])>>
    [] n[1] = "Annotated" -> <<"annotated", ShapeOfM(n[2])>>
ShapeOn(r) == [i \in 1..Len(out) |-> ShapeList(out[i])] = r.shape
AsgShapeHolds == ~panicked => ShapeOn(Req)
(* all three with the program read once *)
MSatisfiesR == ~panicked => LET r == Req IN ScopingOn(r) /\ UsageOn(r) /\ ShapeOn(r)

CaseRec == LET r == Req IN
           [prog |-> prog, syms |-> syms, diags |-> diags, skel |-> out[1], panic |-> panicked,
            need |-> r.need, undef |-> r.undef, redecl |-> r.redecl, nsyms |-> r.ord]
Emit == Complete => PrintT(<<"CASE", ToJson(CaseRec)>>)
(* in simulation the requirement is evaluated on the programs that are printed (Run re-reads the whole program, so checking it *)
(* in every intermediate state makes long walks quadratic); the exhaustive configurations check it in every state               *)
MSatisfiesR_Long == (Complete /\ Len(prog) >= MaxStmts - 1) => MSatisfiesR
(* in simulation mode only long programs are printed *)
EmitLong == (Complete /\ Len(prog) >= MaxStmts - 1) => PrintT(<<"CASE", ToJson(CaseRec)>>)
(* the exhaustive (BFS) configurations use a smaller set of modifier sequences; the simulation uses all of them *)
GateModsSmall == {"none", "pow", "inv+ctrl"}
(* focus family: only gate definitions and the standard-library include, so that programs in which SEVERAL user *)
(* gates collide with standard gates (h, x) are enumerated exhaustively (C17 determinism, C09 listing, C07 redeclaration)  *)
FocusStd == \A i \in 1..Len(prog) : prog[i].op \in {"gate", "close", "std"} /\ (prog[i].op = "gate" => prog[i].ps = <<>> /\ Len(prog[i].qs) = 1)
(* focus family: switch / case / default with declarations and uses of one name (scoping of case and default blocks, C07) *)
FocusSwitch == \A i \in 1..Len(prog) : /\ prog[i].op \in {"decl", "use", "switch", "case", "default", "close"}
                                        /\ (prog[i].op = "decl" => prog[i].ty = "int" /\ prog[i].init.k = "none")
(* focus family: scoping of compound statements with braced and un-braced bodies - declarations and uses of one name in   *)
(* the bodies of if / else / while / for and around them (C07: every body, braced or not, is a scope of its own)           *)
FocusScope == \A i \in 1..Len(prog) : /\ prog[i].op \in {"decl", "use", "if", "else", "while", "for", "close"}
                                       /\ (prog[i].op = "decl" => prog[i].ty = "int" /\ prog[i].init.k = "none")
                                       /\ (prog[i].op = "for" => prog[i].it = "r2")
(* TLC evaluates invariants also on the states a CONSTRAINT cuts off: print only programs inside the family *)
EmitScope == (Complete /\ FocusScope) => PrintT(<<"CASE", ToJson(CaseRec)>>)
=============================================================================
