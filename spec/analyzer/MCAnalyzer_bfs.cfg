SPECIFICATION Spec
CONSTANTS
  Names = {"a", "h"}
  MaxStmts = 2
  MaxDepth = 2
INVARIANTS ScopeDepthMatchesNesting BackToGlobal IdsDense MSatisfiesR Emit
CHECK_DEADLOCK FALSE
