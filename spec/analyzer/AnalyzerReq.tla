---------------------------- MODULE AnalyzerReq ----------------------------
(***************************************************************************)
(* Requirement specs (R) for the analyser, stated over the ABSTRACT PROGRAM  *)
(* (the instruction sequence `prog` of Analyzer.tla) only - no symbol table,  *)
(* no scope stack of the implementation:                                     *)
(*   Scoping     C07: which declaration each use refers to, which            *)
(*               declarations are duplicates, which uses are undefined       *)
(*   UsageRules  C13: for every diagnostic kind of C13 the number of         *)
(*               diagnostics the program must produce, as an interval        *)
(*               [min, max] (max > min where the statement leaves freedom)   *)
(*   AsgShape    C06: the nesting / order / kinds of the graph statements    *)
(* A program is read structurally: "if/else/while/for" with block = FALSE    *)
(* take exactly one following statement as body; "close" ends the innermost  *)
(* braced construct.                                                         *)
(***************************************************************************)
EXTENDS Naturals, Integers, Sequences, FiniteSets

CONSTANT StdLib      \* sequence of <<name, #params, #qubits>> of the standard gate library

(***************************** structure ************************************)
Openers == {"if", "else", "while", "for", "gate", "def"}
IsBlock(ins) == IF ins.op \in {"gate", "def"} THEN TRUE ELSE ins.block

(* The declared class of a name, as far as the usage rules care *)
ClsVar(ty) == CASE ty = "int" -> "var" [] ty = "cint" -> "const" [] ty = "bit" -> "var"
BuiltinConsts == {"pi", "pi_u", "euler", "euler_u", "tau", "tau_u"}

(* The reading state:                                                         *)
(*   open   stack of [single, id (index of the opener; scopes are identified  *)
(*          by it), kind, name/np/nq for gate and def, inDef]                 *)
(*   live   bindings visible now, oldest first: [n, scope, ord, cls, np, nq]  *)
(*   ord    number of symbols created so far (dense numbering)                *)
(*   uses   the resolution of every use so far: ord of the binding or -1      *)
(*   redecl, undef   counts                                                   *)
(*   need   [kind |-> [min, max]] usage-rule diagnostics required so far      *)
(*   shape  stack of statement-kind lists (AsgShape)                          *)
(* ctrl / negctrl add control qubits to a call: C13 leaves the qubit count of such calls open (either answer is allowed) *)
Controlled(md) == md \in {"ctrl", "inv+ctrl", "ctrl+inv", "negctrl+pow", "pow+negctrl+inv"}
Kinds13 == {"NumGateParamsError", "NumGateQubitsError", "MutateConstError", "NotInGlobalScopeError",
            "ReturnInGlobalScopeError", "IncompatibleTypesError"}
Zero == [k \in Kinds13 |-> [min |-> 0, max |-> 0]]
AddN(need, k, lo, hi) == [need EXCEPT ![k] = [min |-> @.min + lo, max |-> @.max + hi]]

NB == 7      \* built-in symbols: six constants and U
S0 == [ open |-> <<>>,
        live |-> [i \in 1..6 |-> [n |-> <<"pi", "pi_u", "euler", "euler_u", "tau", "tau_u">>[i], scope |-> 0, ord |-> i - 1, cls |-> "const", np |-> 0, nq |-> 0]]
                 \o << [n |-> "U", scope |-> 0, ord |-> 6, cls |-> "gate", np |-> 3, nq |-> 1] >>,
        ord |-> NB, uses |-> <<>>, redecl |-> 0, undef |-> 0, need |-> Zero, shape |-> << <<>> >>, pendingAnnot |-> FALSE ]

CurScope(s) == IF s.open = <<>> THEN 0 ELSE s.open[Len(s.open)].id
AtGlobal(s) == s.open = <<>>
InDef(s) == \E i \in 1..Len(s.open) : s.open[i].kind = "def"
InGateOrDef(s) == \E i \in 1..Len(s.open) : s.open[i].kind \in {"def", "gate"}

(* innermost visible declaration of n that textually precedes the use *)
Cands(s, n) == { i \in 1..Len(s.live) : s.live[i].n = n }
Resolve(s, n) == IF Cands(s, n) = {} THEN [ord |-> -1, cls |-> "none", np |-> 0, nq |-> 0]
                 ELSE s.live[CHOOSE i \in Cands(s, n) : \A j \in Cands(s, n) : j <= i]

Use(s, n) == LET b == Resolve(s, n) IN
  [s EXCEPT !.uses = Append(@, b.ord), !.undef = @ + (IF b.ord = -1 THEN 1 ELSE 0)]

(* a declaration in the current scope; a second declaration of the name in the same scope is a duplicate *)
Declare(s, n, cls, np, nq) ==
  IF \E i \in 1..Len(s.live) : s.live[i].n = n /\ s.live[i].scope = CurScope(s)
    THEN [s EXCEPT !.redecl = @ + 1]
    ELSE [s EXCEPT !.live = Append(@, [n |-> n, scope |-> CurScope(s), ord |-> s.ord, cls |-> cls, np |-> np, nq |-> nq]), !.ord = @ + 1]

RECURSIVE DeclareAll(_, _, _), UseOperands(_, _), DeclareStd(_, _)
DeclareAll(s, ns, cls) == IF ns = <<>> THEN s ELSE DeclareAll(Declare(s, ns[1], cls, 0, 0), Tail(ns), cls)
DeclareStd(s, i) == IF i > Len(StdLib) THEN s ELSE DeclareStd(Declare(s, StdLib[i][1], "gate", StdLib[i][2], StdLib[i][3]), i + 1)

(* a quantum operand: must resolve to a qubit / register; a resolved non-quantum symbol is reported;     *)
(* for an unresolved name the statement leaves secondary diagnostics open                                 *)
UseOperands(s, qs) ==
  IF qs = <<>> THEN s
  ELSE LET b == Resolve(s, qs[1])
           s1 == Use(s, qs[1])
           s2 == IF b.ord = -1 THEN [s1 EXCEPT !.need = AddN(@, "IncompatibleTypesError", 0, 1)]
                 ELSE IF b.cls \in {"qubit", "qreg"} THEN s1
                 ELSE [s1 EXCEPT !.need = AddN(@, "IncompatibleTypesError", 1, 1)]
       IN UseOperands(s2, Tail(qs))

UseExpr(s, e) == CASE e.k = "use" -> Use(s, e.n)
                   [] e.k = "measure" -> UseOperands(s, <<e.n>>)
                   [] OTHER -> s

(* statement kinds for AsgShape; an annotation is attached to the statement that follows it *)
PushStmt(s, k) == [s EXCEPT !.shape = [@ EXCEPT ![Len(@)] = Append(@, IF s.pendingAnnot /\ Len(s.shape) = 1 THEN <<"annotated", k>> ELSE k)],
                            !.pendingAnnot = IF Len(s.shape) = 1 THEN FALSE ELSE @]
PushKind(s, k) == PushStmt(s, k)

(* closing: the scope's declarations go out of scope; gate / def names are declared afterwards in the enclosing scope *)
RECURSIVE CloseSingles(_)
CloseTop(s) ==
  LET c == s.open[Len(s.open)]
      body == s.shape[Len(s.shape)]
      s1 == [s EXCEPT !.open = SubSeq(@, 1, Len(@) - 1),
                      !.live = SelectSeq(@, LAMBDA b : b.scope # c.id),
                      !.shape = SubSeq(@, 1, Len(@) - 1)]
      s2 == CASE c.kind = "gate" -> Declare(s1, c.name, "gate", c.np, c.nq)
              [] c.kind = "def" -> Declare(s1, c.name, "def", c.np, 0)
              [] OTHER -> s1
      node == CASE c.kind = "else" -> <<"if", c.thenb, TRUE, body>>
                [] c.kind = "if" -> <<"if", body, FALSE, <<>> >>
                [] OTHER -> <<c.kind, body>>
  IN PushStmt(s2, node)
CloseSingles(s) == IF s.open # <<>> /\ s.open[Len(s.open)].single THEN CloseSingles(CloseTop(s)) ELSE s

Open(s, ins, i, kind) ==
  [s EXCEPT !.open = Append(@, [single |-> ~IsBlock(ins), id |-> i, kind |-> kind,
                                name |-> IF kind \in {"gate", "def"} THEN ins.n ELSE "",
                                np |-> IF kind \in {"gate", "def"} THEN Len(ins.ps) ELSE 0,
                                nq |-> IF kind = "gate" THEN Len(ins.qs) ELSE 0, thenb |-> <<>>, wasAnn |-> FALSE]),
            !.shape = Append(@, <<>>)]

NotGlobal(s) == IF AtGlobal(s) THEN s ELSE [s EXCEPT !.need = AddN(@, "NotInGlobalScopeError", 1, 1)]

(* one instruction (i = its index, used as scope identity) *)
Step(s, ins, i) ==
  CASE ins.op = "decl" ->
         (* the initializer is read before the name comes into scope; conversions are C08's business *)
         LET s1 == UseExpr(s, ins.init)
             s2 == IF ins.init.k = "none" THEN s1 ELSE [s1 EXCEPT !.need = AddN(@, "IncompatibleTypesError", 0, 1)]
         IN CloseSingles(PushKind(Declare(s2, ins.n, ClsVar(ins.ty), 0, 0), "decl"))
    [] ins.op \in {"qubit", "qreg"} ->
         CloseSingles(PushKind(Declare(NotGlobal(s), ins.n, ins.op, 0, 0), "qdecl"))
    [] ins.op = "assign" ->
         LET s1 == UseExpr(s, ins.rhs)
             b == Resolve(s1, ins.n)
             s2 == Use(s1, ins.n)
             s3 == CASE b.ord = -1 -> s2
                     [] b.cls = "const" -> [s2 EXCEPT !.need = AddN(@, "MutateConstError", 1, 1)]
                     [] b.cls = "var" -> s2
                     [] OTHER -> [s2 EXCEPT !.need = AddN(@, "MutateConstError", 0, 1)]     \* qubits, gates, parameters: not const-declared
             s4 == [s3 EXCEPT !.need = AddN(@, "IncompatibleTypesError", 0, 1)]               \* type compatibility: C08
         IN CloseSingles(PushKind(s4, "assign"))
    [] ins.op = "gatecall" ->
         LET s1 == UseOperands(s, ins.qs)
             b == Resolve(s1, ins.g)
             s2 == Use(s1, ins.g)
             s3 == CASE b.ord = -1 -> s2
                     [] b.cls = "gate" ->
                          [s2 EXCEPT !.need = AddN(AddN(@, "NumGateParamsError", IF b.np # ins.np THEN 1 ELSE 0, IF b.np # ins.np THEN 1 ELSE 0),
                                                   "NumGateQubitsError", IF b.nq # Len(ins.qs) /\ ~Controlled(ins.mod) THEN 1 ELSE 0,
                                                   IF b.nq # Len(ins.qs) \/ Controlled(ins.mod) THEN 1 ELSE 0)]
                     [] OTHER -> [s2 EXCEPT !.need = AddN(@, "IncompatibleTypesError", 1, 1)]  \* calling a name that is not a gate
         IN CloseSingles(PushKind(s3, "gatecall"))
    [] ins.op = "use" -> CloseSingles(PushKind(Use(s, ins.n), "exprstmt"))
    [] ins.op = "bin" ->
         LET q(n, st) == LET b == Resolve(st, n) IN
                           IF b.cls \in {"qubit", "qreg"} THEN [Use(st, n) EXCEPT !.need = AddN(@, "IncompatibleTypesError", 1, 1)] ELSE Use(st, n)
         IN CloseSingles(PushKind(q(ins.r, q(ins.l, s)), "exprstmt"))
    [] ins.op = "litstmt" -> CloseSingles(PushKind(s, "exprstmt"))
    (* an indexed identifier: the name (and a name inside the brackets) is used; as reset / measure operand it must be a    *)
    (* qubit register; as assignment target the rules of an assignment apply                                               *)
    [] ins.op = "ix" ->
         LET b == Resolve(s, ins.n)
             s1 == Use(s, ins.n)
             s2 == IF ins.ix = "n" THEN Use(s1, ins.x) ELSE s1
             s3 == CASE ins.role \in {"reset", "measure"} ->
                          (IF b.ord = -1 THEN [s2 EXCEPT !.need = AddN(@, "IncompatibleTypesError", 0, 1)]
                           ELSE IF b.cls = "qreg" THEN s2
                           ELSE [s2 EXCEPT !.need = AddN(@, "IncompatibleTypesError", 1, 1)])
                     [] ins.role = "lhs" ->
                          (CASE b.ord = -1 -> s2
                             [] b.cls = "const" -> [s2 EXCEPT !.need = AddN(@, "MutateConstError", 1, 1)]
                             [] b.cls = "var" -> s2
                             [] OTHER -> [s2 EXCEPT !.need = AddN(@, "MutateConstError", 0, 1)])
                     [] OTHER -> s2
         IN CloseSingles(PushKind(s3, CASE ins.role = "reset" -> "reset" [] ins.role = "lhs" -> "assign" [] OTHER -> "exprstmt"))
    [] ins.op = "reset" -> CloseSingles(PushKind(UseOperands(s, <<ins.n>>), "reset"))
    [] ins.op = "barrier" -> CloseSingles(PushKind(UseOperands(s, ins.qs), "barrier"))
    [] ins.op = "delay" -> CloseSingles(PushKind(UseOperands(s, ins.qs), "delay"))
    [] ins.op = "return" ->
         LET s1 == UseExpr(s, ins.e)
             s2 == IF AtGlobal(s1) THEN [s1 EXCEPT !.need = AddN(@, "ReturnInGlobalScopeError", 1, 1)]
                   ELSE IF InDef(s1) THEN s1
                   ELSE [s1 EXCEPT !.need = AddN(@, "ReturnInGlobalScopeError", 0, 1)]
         IN CloseSingles(PushKind(s2, "exprstmt"))
    [] ins.op = "break" -> CloseSingles(PushKind(s, "break"))
    [] ins.op = "gphase" -> CloseSingles(PushKind(s, "gphase"))
    [] ins.op = "pragma" -> CloseSingles(PushKind(s, "pragma"))
    [] ins.op = "annot" -> [s EXCEPT !.pendingAnnot = TRUE]
    [] ins.op = "std" -> DeclareStd(s, 1)
    [] ins.op \in {"if", "while"} -> Open(Use(s, ins.c), ins, i, ins.op)
    (* switch: the control expression is used in the enclosing scope; every case / default block is a scope of its own *)
    [] ins.op = "switch" -> Open(Use(s, ins.c), ins, i, "switch")
    [] ins.op \in {"case", "default"} -> Open(s, ins, i, ins.op)
    [] ins.op = "else" ->
         (* the else branch belongs to the if statement that was just completed: re-open it *)
         LET cur == s.shape[Len(s.shape)]
             last == cur[Len(cur)]
             ann == last[1] = "annotated"
             ifnode == IF ann THEN last[2] ELSE last
             s1 == [s EXCEPT !.shape = [@ EXCEPT ![Len(@)] = SubSeq(cur, 1, Len(cur) - 1)], !.pendingAnnot = @ \/ ann]
             s2 == Open(s1, ins, i, "else")
         IN [s2 EXCEPT !.open = [@ EXCEPT ![Len(@)].thenb = ifnode[2]]]
    [] ins.op = "for" ->
         (* a name in the iterable is used in the enclosing scope, before the loop variable exists *)
         LET s0 == IF ins.it \in {"rn", "sn", "id"} THEN Use(s, ins.x) ELSE s
             s1 == Open(s0, ins, i, "for") IN Declare(s1, ins.v, "var", 0, 0)
    [] ins.op = "gate" ->
         LET s1 == Open(NotGlobal(s), ins, i, "gate") IN DeclareAll(DeclareAll(s1, ins.ps, "angle"), ins.qs, "qubit")
    [] ins.op = "def" ->
         LET s1 == Open(NotGlobal(s), ins, i, "def") IN DeclareAll(s1, ins.ps, "var")
    [] ins.op = "close" -> CloseSingles(CloseTop(s))

RECURSIVE Run(_)
Run(p) == IF p = <<>> THEN S0 ELSE Step(Run(SubSeq(p, 1, Len(p) - 1)), p[Len(p)], Len(p))

(* what is visible at the end of the program prefix: name -> ord *)
Visible(s, names) == [n \in names |-> Resolve(s, n).ord]
=============================================================================
