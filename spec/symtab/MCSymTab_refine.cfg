\* M => R refinement, history kept in the state.
SPECIFICATION Spec
CONSTANTS
  Names = {"a", "b"}
  Types = {"int", "qubit"}
  GateTypes = {}
  ScopeKinds = {"Local", "Subroutine"}
  OpKinds = {"enter","exit","bind","lookup","lob"}
  MaxOps = 5
CONSTRAINT Bounded
INVARIANTS TypeOK IdsValid IdsUniquePerBinding BuiltinsPresent AnswersAsStackOfMaps
PROPERTY AllAppendOnly
CHECK_DEADLOCK FALSE
