\* Edge export, the 9 operations named by C19 (no lookup-or-bind), histories up to 8.
SPECIFICATION Spec
CONSTANTS
  Names = {"a", "b"}
  Types = {"int", "qubit"}
  GateTypes = {}
  ScopeKinds = {"Local", "Subroutine"}
  OpKinds = {"enter","exit","bind","lookup"}
  MaxOps = 8
CONSTRAINT Bounded
VIEW ViewGraph
ACTION_CONSTRAINT Edge
INVARIANTS TypeOK IdsValid IdsUniquePerBinding BuiltinsPresent
CHECK_DEADLOCK FALSE
