\* Edge export with a gate type (gates() listing), a third name that is a builtin, 3 scope kinds.
SPECIFICATION Spec
CONSTANTS
  Names = {"a", "pi", "U"}
  Types = {"int", "gate"}
  GateTypes = {"gate"}
  ScopeKinds = {"Local", "Subroutine", "Calibration"}
  OpKinds = {"enter","exit","bind","lookup","lob"}
  MaxOps = 5
CONSTRAINT Bounded
VIEW ViewGraph
ACTION_CONSTRAINT Edge
INVARIANTS TypeOK IdsValid IdsUniquePerBinding BuiltinsPresent
CHECK_DEADLOCK FALSE
