--------------------------- MODULE StackOfMaps ---------------------------
(***************************************************************************)
(* Requirement spec (R) for C19: what "behaves as a stack of scopes" means, *)
(* stated over the HISTORY of operations only.  No implementation          *)
(* identifier is mentioned here: there is no stack variable, no table, no  *)
(* counter.  A history is a sequence of operation records                  *)
(*   [op |-> "enter", kind |-> k] | [op |-> "exit"]                        *)
(*   [op |-> "bind", name |-> n, type |-> t] | [op |-> "lookup", name |-> n]*)
(*   [op |-> "lob", name |-> n, type |-> t]   (look-up-or-bind)            *)
(* preceded by the built-in bindings (Builtins, in order, in the global    *)
(* scope).                                                                 *)
(***************************************************************************)
EXTENDS Naturals, Integers, Sequences, FiniteSets

CONSTANT Builtins      \* sequence of [name, type] present from the start

(* Positions of a history are 1..Len(h).  Open(h, i) is TRUE iff the scope  *)
(* entered at position i (an "enter") is still open after all of h.        *)
RECURSIVE DepthAfter(_)
DepthAfter(h) ==
  IF h = <<>> THEN 1
  ELSE LET d == DepthAfter(SubSeq(h, 1, Len(h) - 1)) IN
       CASE h[Len(h)].op = "enter" -> d + 1
         [] h[Len(h)].op = "exit"  -> d - 1
         [] OTHER -> d

(* Depth (number of open scopes) just before position i was executed.       *)
DepthBefore(h, i) == DepthAfter(SubSeq(h, 1, i - 1))

(* The scope in which position i executed is still open after h iff the     *)
(* depth never dropped below DepthBefore(h,i) in between.                   *)
StillOpen(h, i) ==
  \A j \in i..Len(h) : DepthAfter(SubSeq(h, 1, j)) >= DepthBefore(h, i)

(* Same scope instance: positions i < j executed in the same scope instance *)
(* iff depths are equal and the depth never went below that in between.     *)
SameScope(h, i, j) ==
  /\ DepthBefore(h, i) = DepthBefore(h, j)
  /\ \A k \in i..(j - 1) : DepthAfter(SubSeq(h, 1, k)) >= DepthBefore(h, i)

(* Whether the bind-like operation at position i succeeded, and a look-up's *)
(* answer, are defined by mutual recursion on the prefix.                   *)
RECURSIVE Succeeded(_, _), VisibleAt(_, _)

(* The position of the successful binding that `name` denotes just before   *)
(* position j executes (0: a builtin, -1: none).  It is the LAST successful *)
(* binding of the name whose scope is still open at j, taking the innermost.*)
(* Because scopes nest, "innermost open" = "latest successful binding whose *)
(* scope is still open".                                                    *)
VisibleAt(h, jn) ==
  LET j == jn[1]
      n == jn[2]
      cands == { i \in 1..(j - 1) :
                   /\ h[i].op \in {"bind", "lob"}
                   /\ h[i].name = n
                   /\ Succeeded(h, i)
                   /\ StillOpen(SubSeq(h, 1, j - 1), i) }
  IN IF cands # {} THEN CHOOSE i \in cands : \A k \in cands : k <= i
     ELSE IF \E b \in 1..Len(Builtins) : Builtins[b].name = n THEN 0
     ELSE -1

Succeeded(h, i) ==
  CASE h[i].op = "bind" ->
         \* fails iff the CURRENT scope already has the name
         LET v == VisibleAt(h, <<i, h[i].name>>) IN
           ~ ( \/ (v > 0 /\ SameScope(h, v, i))
               \/ (v = 0 /\ DepthBefore(h, i) = 1) )
    [] h[i].op = "lob" -> VisibleAt(h, <<i, h[i].name>>) = -1
    [] OTHER -> FALSE

(* Symbol ids are dense in order of successful creation, after the builtins.*)
IdOf(h, i) ==
  IF i = 0 THEN -1   \* not used; builtins have their own ids, see IdOfBuiltin
  ELSE Len(Builtins) - 1 + Cardinality({ k \in 1..i : Succeeded(h, k) })

IdOfBuiltin(n) == (CHOOSE b \in 1..Len(Builtins) : Builtins[b].name = n) - 1

(* What a look-up of name n must answer after history h.                    *)
LookupAnswer(h, n) ==
  LET hh == Append(h, [op |-> "lookup", name |-> n])
      v  == VisibleAt(hh, <<Len(hh), n>>)
  IN CASE v = -1 -> [found |-> FALSE, id |-> -1, type |-> "none"]
       [] v = 0  -> [found |-> TRUE, id |-> IdOfBuiltin(n),
                     type |-> Builtins[IdOfBuiltin(n) + 1].type]
       [] OTHER  -> [found |-> TRUE, id |-> IdOf(h, v), type |-> h[v].type]

(* The list of all symbols ever created (never shrinks, never changes).     *)
AllSymbols(h) ==
  LET succ == { i \in 1..Len(h) : Succeeded(h, i) }
      nth(k) == CHOOSE i \in succ : Cardinality({ m \in succ : m <= i }) = k
  IN Builtins \o [k \in 1..Cardinality(succ) |->
                     [name |-> h[nth(k)].name, type |-> h[nth(k)].type]]

(* Number of names bound in the current scope.                              *)
CurrentScopeSize(h) ==
  LET d == DepthAfter(h)
      hh == Append(h, [op |-> "lookup", name |-> "?"])
  IN Cardinality({ i \in 1..Len(h) : Succeeded(h, i) /\ SameScope(hh, i, Len(hh)) })
     + (IF d = 1 THEN Len(Builtins) ELSE 0)
=============================================================================
