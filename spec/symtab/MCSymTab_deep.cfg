\* Edge export, deep and narrow: one name, one type, one scope kind, the four core operations,
\* histories up to 12 (the walker is given the length to walk).  Complements the wide and shallow
\* configurations: defects that need a long history over a single name (caches keyed by stack position,
\* stale entries after several exits and re-entries) show only here.
SPECIFICATION Spec
CONSTANTS
  Names = {"a"}
  Types = {"int"}
  GateTypes = {}
  ScopeKinds = {"Local"}
  OpKinds = {"enter","exit","bind","lookup"}
  MaxOps = 12
CONSTRAINT Bounded
VIEW ViewGraph
ACTION_CONSTRAINT Edge
INVARIANTS TypeOK IdsValid IdsUniquePerBinding BuiltinsPresent
CHECK_DEADLOCK FALSE
