------------------------------ MODULE SymTab ------------------------------
(***************************************************************************)
(* Machine spec (M) of oq3_semantics::symbols::SymbolTable, structured like *)
(* the code: a stack of per-scope maps name -> id, the vector of all        *)
(* symbols, and the id counter.  One action per public operation.           *)
(*                                                                         *)
(*   stack    scope_symbol_table_stack : Seq([kind, map])                   *)
(*   all      all_symbols : Seq([name, type])                               *)
(*   counter  symbol_id_counter                                             *)
(*   resp     the answer of the last operation (what the caller observes)   *)
(*   hist     history of operations (only used to state the refinement      *)
(*            towards StackOfMaps; hidden by the VIEW in graph exports)     *)
(***************************************************************************)
EXTENDS Naturals, Integers, Sequences, SequencesExt, FiniteSets, TLC

CONSTANTS Names,        \* names used by clients
          Types,        \* types used by clients (opaque strings)
          ScopeKinds,   \* kinds a client may enter ("Local", "Subroutine", ...)
          GateTypes,    \* the members of Types that are gate types
          OpKinds,      \* subset of {"enter","exit","bind","lookup","lob"} a client uses
          MaxOps        \* bound on the number of operations (model checking only)

VARIABLES stack, all, counter, resp, hist, nops
vars == <<stack, all, counter, resp, hist, nops>>

Builtins == << [name |-> "pi",    type |-> "Float(Some(64), True)"],
               [name |-> "pi_u",     type |-> "Float(Some(64), True)"],
               [name |-> "euler", type |-> "Float(Some(64), True)"],
               [name |-> "euler_u",     type |-> "Float(Some(64), True)"],
               [name |-> "tau",   type |-> "Float(Some(64), True)"],
               [name |-> "tau_u",     type |-> "Float(Some(64), True)"],
               [name |-> "U",     type |-> "Gate(3, 1)"] >>

(* TLC prints non-ASCII characters as "?", so the three Greek built-ins are   *)
(* spelled pi_u, euler_u, tau_u here; the harness maps them back.            *)
R == INSTANCE StackOfMaps

NoMap == [n \in {} |-> 0]
MapPut(m, n, id) == [x \in DOMAIN m \cup {n} |-> IF x = n THEN id ELSE m[x]]

Top == stack[Len(stack)]

(* SymbolTable::new(): global scope, then new_binding for each builtin.     *)
Init ==
  /\ stack = << [kind |-> "Global",
                 map  |-> [n \in {Builtins[i].name : i \in 1..Len(Builtins)} |->
                             (CHOOSE i \in 1..Len(Builtins) : Builtins[i].name = n) - 1]] >>
  /\ all = Builtins
  /\ counter = Len(Builtins)
  /\ resp = [op |-> "new"]
  /\ hist = <<>>
  /\ nops = 0

Tick(o) == /\ nops' = nops + 1
           /\ hist' = Append(hist, o)

(* enter_scope(kind): push an empty map.                                    *)
Enter(k) ==
  /\ stack' = Append(stack, [kind |-> k, map |-> NoMap])
  /\ UNCHANGED <<all, counter>>
  /\ resp' = [op |-> "enter", depth |-> Len(stack) + 1]
  /\ Tick([op |-> "enter", kind |-> k])

(* exit_scope(): precondition (assert!) more than one scope; pop.           *)
Exit ==
  /\ Len(stack) > 1
  /\ stack' = SubSeq(stack, 1, Len(stack) - 1)
  /\ UNCHANGED <<all, counter>>
  /\ resp' = [op |-> "exit", depth |-> Len(stack) - 1]
  /\ Tick([op |-> "exit"])

(* new_binding_no_check: push symbol, post-increment counter, insert in top *)
DoBind(n, t) ==
  /\ all' = Append(all, [name |-> n, type |-> t])
  /\ counter' = counter + 1
  /\ stack' = [stack EXCEPT ![Len(stack)].map = MapPut(@, n, counter)]

(* new_binding(name, typ)                                                   *)
Bind(n, t) ==
  /\ IF n \in DOMAIN Top.map
       THEN /\ UNCHANGED <<stack, all, counter>>
            /\ resp' = [op |-> "bind", ok |-> FALSE, id |-> -1]
       ELSE /\ DoBind(n, t)
            /\ resp' = [op |-> "bind", ok |-> TRUE, id |-> counter]
  /\ Tick([op |-> "bind", name |-> n, type |-> t])

(* lookup(name): search the stack from the top.                             *)
Holders(n) == { i \in 1..Len(stack) : n \in DOMAIN stack[i].map }
Find(n) == IF Holders(n) = {} THEN -1
           ELSE LET i == CHOOSE i \in Holders(n) : \A j \in Holders(n) : j <= i
                IN stack[i].map[n]

LookupResp(n) ==
  LET id == Find(n) IN
  IF id = -1 THEN [op |-> "lookup", found |-> FALSE, id |-> -1, name |-> n, type |-> "none"]
  ELSE [op |-> "lookup", found |-> TRUE, id |-> id,
        name |-> all[id + 1].name, type |-> all[id + 1].type]

Lookup(n) ==
  /\ UNCHANGED <<stack, all, counter>>
  /\ resp' = LookupResp(n)
  /\ Tick([op |-> "lookup", name |-> n])

(* lookup_or_new_binding(name, typ)                                         *)
LookupOrBind(n, t) ==
  /\ IF Find(n) # -1
       THEN /\ UNCHANGED <<stack, all, counter>>
            /\ resp' = [op |-> "lob", id |-> Find(n)]
       ELSE /\ DoBind(n, t)
            /\ resp' = [op |-> "lob", id |-> counter]
  /\ Tick([op |-> "lob", name |-> n, type |-> t])

DoEnter  == "enter" \in OpKinds /\ \E k \in ScopeKinds : Enter(k)
DoExit   == "exit" \in OpKinds /\ Exit
DoBindOp == "bind" \in OpKinds /\ \E n \in Names, t \in Types : Bind(n, t)
DoLookup == "lookup" \in OpKinds /\ \E n \in Names : Lookup(n)
DoLob    == "lob" \in OpKinds /\ \E n \in Names, t \in Types : LookupOrBind(n, t)

Next == DoEnter \/ DoExit \/ DoBindOp \/ DoLookup \/ DoLob

Spec == Init /\ [][Next]_vars

Bounded == nops < MaxOps    \* used as a guard via CONSTRAINT

(***************************************************************************)
(* Observation: what a client can see of the table after any operation.     *)
(* The harness projects the real SymbolTable to exactly this record.        *)
(***************************************************************************)
GateIdx == { i \in 1..Len(all) :
               (all[i].type \in GateTypes \/ all[i].type = "Gate(3, 1)") /\ all[i].name # "U" }
SeqOfSet(S) == SetToSortSeq(S, LAMBDA x, y : x < y)   \* Java-evaluated (SequencesExt)
(* gates(): every gate symbol except the built-in U, in id order            *)
GatesListing == LET ix == SeqOfSet(GateIdx) IN
                [k \in 1..Len(ix) |-> [name |-> all[ix[k]].name, id |-> ix[k] - 1]]

Obs == [ depth   |-> Len(stack),
         gates   |-> GatesListing,
         curlen  |-> Cardinality(DOMAIN Top.map),
         curkind |-> Top.kind,
         nsyms   |-> Len(all),
         vis     |-> [n \in Names |-> Find(n)] ]

(***************************************************************************)
(* Invariants of M                                                          *)
(***************************************************************************)
TypeOK ==
  /\ Len(stack) >= 1 /\ stack[1].kind = "Global"
  /\ \A i \in 2..Len(stack) : stack[i].kind # "Global"
  /\ counter = Len(all)

IdsValid == \A i \in 1..Len(stack) : \A n \in DOMAIN stack[i].map :
               /\ stack[i].map[n] \in 0..(Len(all) - 1)
               /\ all[stack[i].map[n] + 1].name = n

IdsUniquePerBinding ==
  \A i, j \in 1..Len(stack) : \A n \in DOMAIN stack[i].map, m \in DOMAIN stack[j].map :
     stack[i].map[n] = stack[j].map[m] => (i = j /\ n = m)

BuiltinsPresent == \A i \in 1..Len(Builtins) :
     /\ all[i] = Builtins[i]
     /\ stack[1].map[Builtins[i].name] = i - 1

(* all_symbols only grows, existing entries never change                    *)
AllAppendOnly == [][ /\ Len(all') >= Len(all)
                     /\ SubSeq(all', 1, Len(all)) = all ]_vars

(***************************************************************************)
(* Refinement M => R: the answers of M are those StackOfMaps prescribes     *)
(* for the history.                                                         *)
(***************************************************************************)
LastOp == hist[Len(hist)]
Before == SubSeq(hist, 1, Len(hist) - 1)

AnswersAsStackOfMaps ==
  hist # <<>> =>
    /\ R!DepthAfter(hist) = Len(stack)
    /\ R!AllSymbols(hist) = all
    /\ R!CurrentScopeSize(hist) = Cardinality(DOMAIN Top.map)
    /\ \A n \in Names :
         LET a == R!LookupAnswer(hist, n) IN
           /\ (a.id = Find(n))
           /\ (a.found => a.type = all[Find(n) + 1].type /\ all[Find(n) + 1].name = n)
    /\ LastOp.op = "bind" =>
         /\ resp.ok = R!Succeeded(hist, Len(hist))
         /\ resp.ok => resp.id = R!IdOf(hist, Len(hist))
    /\ LastOp.op = "lob" =>
         resp.id = IF R!Succeeded(hist, Len(hist)) THEN R!IdOf(hist, Len(hist))
                   ELSE R!LookupAnswer(Before, LastOp.name).id
    /\ LastOp.op = "lookup" =>
         LET a == R!LookupAnswer(Before, LastOp.name) IN
           /\ resp.found = a.found /\ resp.id = a.id /\ resp.type = a.type
=============================================================================
