\* Edge export for the graph walker: history hidden by the VIEW.
SPECIFICATION Spec
CONSTANTS
  Names = {"a", "b"}
  Types = {"int", "qubit"}
  GateTypes = {}
  ScopeKinds = {"Local", "Subroutine"}
  OpKinds = {"enter","exit","bind","lookup","lob"}
  MaxOps = 6
CONSTRAINT Bounded
VIEW ViewGraph
ACTION_CONSTRAINT Edge
INVARIANTS TypeOK IdsValid IdsUniquePerBinding BuiltinsPresent
CHECK_DEADLOCK FALSE
