--------------------------- MODULE SymTabTrace ---------------------------
(* Trace spec (T): consumes an NDJSON trace recorded from the real           *)
(* SymbolTable (harness `symtab-record`) and accepts it iff it is a          *)
(* behaviour of SymTab: every logged operation, with its logged arguments,   *)
(* must be enabled, must produce the logged answer, and must lead to a state *)
(* whose observation equals the logged observation.                          *)
EXTENDS SymTab, Json, IOUtils

Rec == ndJsonDeserialize(IOEnv.TRACE)

VARIABLE l
tvars == <<vars, l>>

TraceInit == Init /\ l = 1

IsEvent(e) == l <= Len(Rec) /\ Rec[l].ev = e /\ l' = l + 1
IsOp(o) == IsEvent("op") /\ Rec[l].op.op = o

(* what the implementation reported must be what M computes *)
Matches == resp' = Rec[l].r /\ Obs' = Rec[l].obs

TReset ==
  /\ IsEvent("reset")
  /\ stack' = << [kind |-> "Global",
                  map  |-> [n \in {Builtins[i].name : i \in 1..Len(Builtins)} |->
                              (CHOOSE i \in 1..Len(Builtins) : Builtins[i].name = n) - 1]] >>
  /\ all' = Builtins /\ counter' = Len(Builtins)
  /\ resp' = [op |-> "new"] /\ hist' = <<>> /\ nops' = 0

TEnter  == IsOp("enter")  /\ Enter(Rec[l].op.kind) /\ Matches
TExit   == IsOp("exit")   /\ Exit /\ Matches
TBind   == IsOp("bind")   /\ Bind(Rec[l].op.name, Rec[l].op.type) /\ Matches
TLookup == IsOp("lookup") /\ Lookup(Rec[l].op.name) /\ Matches
TLob    == IsOp("lob")    /\ LookupOrBind(Rec[l].op.name, Rec[l].op.type) /\ Matches

TraceNext == TReset \/ TEnter \/ TExit \/ TBind \/ TLookup \/ TLob
TraceSpec == TraceInit /\ [][TraceNext]_tvars

TraceView == <<stack, all, counter, l>>

(* one state per consumed line plus the initial state *)
TraceAccepted ==
  LET d == TLCGet("stats").diameter IN
    IF d - 1 = Len(Rec) THEN TRUE
    ELSE PrintT(<<"REJECT", ToJson([line |-> d, ev |-> Rec[d]])>>) /\ FALSE
=============================================================================
