------------------------- MODULE AnalyzerSymTrace -------------------------
(***************************************************************************)
(* Trace spec (T): the symbol-table operations the REAL semantic analysis    *)
(* performs on a program (hook oq3_semantics::verif, recorded inside          *)
(* SymbolTable itself) must be a behaviour of the machine spec SymTab with    *)
(* exactly the logged answers:                                               *)
(*   - a look-up returns the id SymTab computes (innermost open scope), C19   *)
(*   - a binding succeeds / fails as SymTab says and gets SymTab's id, C19    *)
(*   - scope exits are enabled (never the global scope), C03                  *)
(*   - when the analysis returns, only the global scope is open and the       *)
(*     table has exactly the symbols bound, C03                               *)
(* Names and types are arbitrary strings here (whatever the program uses).   *)
(* A file holds many analyses; "reset" starts a fresh table.                 *)
(***************************************************************************)
EXTENDS SymTab, Json, IOUtils

Rec == ndJsonDeserialize(IOEnv.TRACE)
VARIABLE l
tvars == <<vars, l>>
TraceInit == Init /\ l = 1
IsEvent(e) == l <= Len(Rec) /\ Rec[l].ev = e /\ l' = l + 1
E == Rec[l]

TReset ==
  /\ IsEvent("reset")
  /\ stack' = << [kind |-> "Global",
                  map  |-> [n \in {Builtins[i].name : i \in 1..Len(Builtins)} |->
                              (CHOOSE i \in 1..Len(Builtins) : Builtins[i].name = n) - 1]] >>
  /\ all' = Builtins /\ counter' = Len(Builtins)
  /\ resp' = [op |-> "new"] /\ hist' = <<>> /\ nops' = 0
TEnter    == IsEvent("enter") /\ E.kind # "Global" /\ Enter(E.kind)
TExit     == IsEvent("exit") /\ Exit
TBind     == IsEvent("bind") /\ Bind(E.name, E.type) /\ resp'.ok /\ resp'.id = E.id
TBindFail == IsEvent("bindfail") /\ Bind(E.name, E.type) /\ ~resp'.ok
TLookup   == IsEvent("lookup") /\ Lookup(E.name) /\ resp'.id = E.id
(* the analysis returned (or panicked: then only the operations so far are validated) *)
TDone     == /\ IsEvent("done")
             /\ ~E.panicked => (Len(stack) = 1 /\ E.depth = 1 /\ Len(all) = E.nsyms)
             /\ UNCHANGED vars
TraceNext == TReset \/ TEnter \/ TExit \/ TBind \/ TBindFail \/ TLookup \/ TDone
TraceSpec == TraceInit /\ [][TraceNext]_tvars
TraceView == <<stack, all, counter, l>>

Remember == TLCSet(1, [depth |-> Len(stack), nsyms |-> Len(all), top |-> DOMAIN Top.map, kinds |-> [i \in 1..Len(stack) |-> stack[i].kind]])
TraceAccepted ==
  LET d == TLCGet("stats").diameter IN
    IF d - 1 = Len(Rec) THEN TRUE
    ELSE PrintT(<<"REJECT", ToJson([line |-> d, ev |-> Rec[d], state |-> TLCGet(1)])>>) /\ FALSE
=============================================================================
