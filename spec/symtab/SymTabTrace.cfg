SPECIFICATION TraceSpec
CONSTANTS
  Names = {"a", "b", "c", "pi"}
  Types = {"int", "qubit", "float", "gate"}
  GateTypes = {"gate"}
  ScopeKinds = {"Local", "Subroutine", "Calibration"}
  OpKinds = {"enter","exit","bind","lookup","lob"}
  MaxOps = 100000
VIEW TraceView
INVARIANTS TypeOK IdsValid BuiltinsPresent
POSTCONDITION TraceAccepted
CHECK_DEADLOCK FALSE
