SPECIFICATION TraceSpec
CONSTANTS
  Names = {}
  Types = {}
  GateTypes = {}
  ScopeKinds = {}
  OpKinds = {}
  MaxOps = 100000000
VIEW TraceView
CONSTRAINT Remember
INVARIANTS TypeOK IdsValid IdsUniquePerBinding BuiltinsPresent
POSTCONDITION TraceAccepted
CHECK_DEADLOCK FALSE
