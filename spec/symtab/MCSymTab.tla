---------------------------- MODULE MCSymTab ----------------------------
(* Model-checking harness for SymTab: bounded configs, VIEW that hides the  *)
(* history, and the edge export used by the graph walker (B2).              *)
EXTENDS SymTab, Json

ViewGraph == <<stack, all, counter, nops>>

NB == Len(Builtins)
UserMap(m) == [n \in DOMAIN m \ {Builtins[i].name : i \in 1..NB} |-> m[n]]
(* compact state key: builtins are left out (they never change: BuiltinsPresent) *)
StateKey(s, a, n) ==
  [ s |-> [i \in 1..Len(s) |-> [k |-> s[i].kind, m |-> UserMap(s[i].map)]],
    u |-> SubSeq(a, NB + 1, Len(a)), n |-> n ]

(* Every transition printed as one JSON line: from-state, operation, answer,*)
(* observation after, to-state.                                             *)
Edge ==
  PrintT(<<"EDGE", ToJson([ f   |-> StateKey(stack, all, nops),
                            op  |-> hist'[Len(hist')],
                            r   |-> resp',
                            obs |-> Obs',
                            t   |-> StateKey(stack', all', nops') ])>>)
=============================================================================
