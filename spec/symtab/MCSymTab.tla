---------------------------- MODULE MCSymTab ----------------------------
(* Model-checking harness for SymTab: bounded configs, VIEW that hides the  *)
(* history, and the edge export used by the graph walker (B2).              *)
EXTENDS SymTab, Json

ViewGraph == <<stack, all, counter, nops>>

NB == Len(Builtins)
(* compact state key: the built-in BINDINGS (ids below NB, in the global scope) are left out - they never change           *)
(* (BuiltinsPresent).  A user binding of a built-in NAME in an inner scope (shadowing `pi` or `U`) is part of the state:   *)
(* an earlier version dropped entries by name and merged such states, which made the exported graph wrong for the          *)
(* configuration whose names include built-ins (MCSymTab_graphg).                                                          *)
UserMap(m) == [n \in {x \in DOMAIN m : m[x] >= NB} |-> m[n]]
StateKey(s, a, n) ==
  [ s |-> [i \in 1..Len(s) |-> [k |-> s[i].kind, m |-> UserMap(s[i].map)]],
    u |-> SubSeq(a, NB + 1, Len(a)), n |-> n ]

(* Every transition printed as one JSON line: from-state, operation, answer,*)
(* observation after, to-state.                                             *)
Edge ==
  PrintT(<<"EDGE", ToJson([ f   |-> StateKey(stack, all, nops),
                            op  |-> hist'[Len(hist')],
                            r   |-> resp',
                            obs |-> Obs',
                            t   |-> StateKey(stack', all', nops') ])>>)
=============================================================================
