SPECIFICATION Spec
POSTCONDITION FinishedAssoc
CHECK_DEADLOCK FALSE
