-------------------------- MODULE TypeTableCheck --------------------------
(***************************************************************************)
(* Trace spec (T) for C20.  The "trace" is the complete table recorded from *)
(* the real functions over the finite abstraction of types (harness         *)
(* `types-table`): row (ia-1)*N+ib holds the answers for the ordered pair.  *)
(* One step per row; every clause of C20 (TypeLattice, R) is evaluated on   *)
(* the recorded answers, and the answers are compared with the             *)
(* transcription of the code (Promote, M) to detect model drift.            *)
(* Rows that break a clause are printed, classified by the named deviation  *)
(* Dev_X operator that predicts exactly that answer, or as UNEXPECTED.             *)
(***************************************************************************)
EXTENDS Naturals, Integers, Sequences, FiniteSets, Json, IOUtils, TLC

R == INSTANCE TypeLattice
M == INSTANCE Promote

TypesRaw == ndJsonDeserialize(IOEnv.TYPES)
Tab      == ndJsonDeserialize(IOEnv.TABLE)
N        == Len(TypesRaw)

T(i) == [base |-> TypesRaw[i].base, w |-> TypesRaw[i].w, c |-> TypesRaw[i].c,
         nd |-> TypesRaw[i].nd, dk |-> TypesRaw[i].dk]
Row(ia, ib) == Tab[(ia - 1) * N + ib]

(* result index 0 = a type outside the abstraction: never acceptable *)
Res(k) == IF k >= 1 /\ k <= N THEN T(k) ELSE [base |-> "OUTSIDE", w |-> -1, c |-> "-", nd |-> 0, dk |-> 0]

(***************************************************************************)
(* Named deviations of the code from R that are already known (they are     *)
(* listed in known_findings.jsonl).  Each predicts ONE answer.               *)
(***************************************************************************)
(* promote_types returns its first argument when the operands are equal up  *)
(* to const-ness: const-ness is not joined.                                 *)
Dev_EqualUpToConstReturnsFirst(a, b, r) ==
  a # b /\ R!EqUpToConst(a, b) /\ r = a /\ a.c = "T"
(* cross-category promotion clones the operand of the higher category:      *)
(* width can shrink and const-ness is not joined                            *)
Dev_CrossCategoryClonesOperand(a, b, r) ==
  /\ R!IsNumeric(a) /\ R!IsNumeric(b) /\ a.base # b.base
  /\ ~({a.base, b.base} = {"Int", "UInt"})
  /\ r = (IF R!KindLeq(a.base, b.base) THEN b ELSE a)
(* int vs uint: no common type although float bounds both                   *)
Dev_IntUIntNoCommonType(a, b, r) ==
  {a.base, b.base} = {"Int", "UInt"} /\ r = R!VoidT

(* two complex types of different widths: no common type although the wider *)
(* complex type bounds both (promote_type_width has no Complex arm)          *)
Dev_ComplexWidthsNoCommonType(a, b, r) ==
  a.base = "Complex" /\ b.base = "Complex" /\ a.w # b.w /\ r = R!VoidT

Classify(a, b, r) ==
  CASE Dev_EqualUpToConstReturnsFirst(a, b, r) -> "Dev_EqualUpToConstReturnsFirst"
    [] Dev_CrossCategoryClonesOperand(a, b, r) -> "Dev_CrossCategoryClonesOperand"
    [] Dev_IntUIntNoCommonType(a, b, r) -> "Dev_IntUIntNoCommonType"
    [] Dev_ComplexWidthsNoCommonType(a, b, r) -> "Dev_ComplexWidthsNoCommonType"
    [] OTHER -> "UNEXPECTED"

(***************************************************************************)
(* Clauses broken by a row (set of clause names)                            *)
(***************************************************************************)
Broken(ia, ib) ==
  LET a == T(ia)  b == T(ib)
      row == Row(ia, ib)
      r == Res(row.p)
      r2 == Res(Row(ib, ia).p)
  IN  (IF row.p = -1 THEN {"Returns"} ELSE {})
      \cup (IF R!L_Symmetric(a, b, r, r2) THEN {} ELSE {"Symmetric"})
      \cup (IF R!L_Idempotent(a, b, r) THEN {} ELSE {"Idempotent"})
      \cup (IF R!L_UpperBound(a, b, r) THEN {} ELSE {"UpperBound"})
      \cup (IF R!L_ConstOnlyIfBoth(a, b, r) THEN {} ELSE {"ConstOnlyIfBoth"})
      \cup (IF R!L_VoidExactly(a, b, r) THEN {} ELSE {"VoidExactly"})
      \cup (IF R!L_LitSuperset(a, b, r, row.lit) THEN {} ELSE {"LitSuperset"})
      \cup (IF R!L_LitNeverDown(a, b, row.lit) THEN {} ELSE {"LitNeverDown"})

(***************************************************************************)
(* implicit_cast_type (asg.rs): the type both operands of an arithmetic      *)
(* operator are cast to.  For + and & it must be the common type itself;     *)
(* for / it may differ from it (integer division is typed as the unsized     *)
(* float), but over the numeric tower it must still be an upper bound of     *)
(* both operands and symmetric up to const-ness.                             *)
(***************************************************************************)
OpBroken(ia, ib) ==
  LET a == T(ia)  b == T(ib)
      row == Row(ia, ib)
      num == R!IsNumeric(a) /\ R!IsNumeric(b)
  IN  (IF row.add = row.p THEN {} ELSE {"AddIsCommonType"})
      \cup (IF row.band = row.p THEN {} ELSE {"BitAndIsCommonType"})
      \cup (IF num /\ row.div # row.p /\ ~R!L_UpperBound(a, b, Res(row.div)) THEN {"DivUpperBound"} ELSE {})
      \cup (IF num /\ ~R!EqUpToConst(Res(row.div), Res(Row(ib, ia).div)) THEN {"DivSymmetric"} ELSE {})

(* associativity on the table, where a common type exists throughout *)
AssocBroken(ia, ib, ic) ==
  LET ab == Row(ia, ib).p  bc == Row(ib, ic).p IN
  /\ ab >= 1 /\ bc >= 1 /\ Res(ab) # R!VoidT /\ Res(bc) # R!VoidT
  /\ LET l == Row(ab, ic).p  rr == Row(ia, bc).p IN
       /\ l >= 1 /\ rr >= 1 /\ Res(l) # R!VoidT /\ Res(rr) # R!VoidT
       /\ ~R!EqUpToConst(Res(l), Res(rr))

(* drift: the recorded answers equal the transcription of the code *)
Drift(ia, ib) ==
  LET a == T(ia)  b == T(ib)  row == Row(ia, ib) IN
    (IF Res(row.p) = M!PromoteTypesM(a, b) THEN {} ELSE {"promote_types"})
    \cup (IF Res(row.pne) = M!PromoteTypesNotEqualM(a, b) THEN {} ELSE {"promote_types_not_equal"})
    \cup (IF row.lit = M!CanCastLiteralM(a, b) THEN {} ELSE {"can_cast_literal"})
    \cup (IF row.eqb = M!EqualBaseTypeM(a, b) THEN {} ELSE {"equal_base_type"})
    \cup (IF Res(row.add) = M!ImplicitCastM("Add", a, b) THEN {} ELSE {"implicit_cast_type(Add)"})
    \cup (IF Res(row.div) = M!ImplicitCastM("Div", a, b) THEN {} ELSE {"implicit_cast_type(Div)"})
    \cup (IF Res(row.band) = M!ImplicitCastM("BitAnd", a, b) THEN {} ELSE {"implicit_cast_type(BitAnd)"})

(***************************************************************************)
(* The walk over the table: one step per ordered pair.                      *)
(***************************************************************************)
VARIABLES ia, ib
vars == <<ia, ib>>

Init == ia = 1 /\ ib = 1

Report ==
  LET br == Broken(ia, ib)  dr == Drift(ia, ib) IN
  /\ IF br = {} THEN TRUE
     ELSE PrintT(<<"BAD", ToJson([a |-> ia, b |-> ib, clauses |-> br,
                                  dev |-> Classify(T(ia), T(ib), Res(Row(ia, ib).p)),
                                  got |-> Row(ia, ib).pdbg])>>)
  /\ IF OpBroken(ia, ib) = {} THEN TRUE
     ELSE PrintT(<<"BAD", ToJson([a |-> ia, b |-> ib, clauses |-> OpBroken(ia, ib), dev |-> "UNEXPECTED_IMPLICIT_CAST",
                                  got |-> "add/div/bitand type indices " \o ToString(Row(ia, ib).add) \o "/" \o ToString(Row(ia, ib).div) \o "/" \o ToString(Row(ia, ib).band)])>>)
  /\ IF dr = {} THEN TRUE
     ELSE PrintT(<<"DRIFT", ToJson([a |-> ia, b |-> ib, funcs |-> dr])>>)

Step ==
  /\ ia <= N
  /\ Report
  /\ IF ib < N THEN ib' = ib + 1 /\ ia' = ia
               ELSE ib' = 1 /\ ia' = ia + 1

Next == Step
Spec == Init /\ [][Next]_vars

Done == ia = N + 1

(* thorough: associativity over all triples, evaluated once at the end *)
AssocAll ==
  LET bad == { t \in (1..N) \X (1..N) \X (1..N) : AssocBroken(t[1], t[2], t[3]) } IN
    IF bad = {} THEN TRUE
    ELSE PrintT(<<"ASSOC", ToJson([n |-> Cardinality(bad), first |-> CHOOSE t \in bad : TRUE])>>)

Finished == TLCGet("stats").diameter = N * N + 1
FinishedAssoc == Finished /\ AssocAll
=============================================================================
