------------------------------ MODULE Promote ------------------------------
(***************************************************************************)
(* Machine spec (M): transcription of oq3_semantics/src/types.rs            *)
(* (equal_up_to_constness, promote_constness, promote_width,               *)
(* promote_type_width, promote_base_type, promote_types,                    *)
(* promote_types_not_equal, can_cast_literal, equal_base_type) and          *)
(* asg.rs::implicit_cast_type, one operator per function, same case order.  *)
(* Types are the records of TypeLattice.                                    *)
(***************************************************************************)
EXTENDS Naturals, Integers

VoidT == [base |-> "Void", w |-> -1, c |-> "-", nd |-> 0, dk |-> 0]

(* Type::is_const(): flag for types that have one, TRUE for all others *)
IsConstM(t) == IF t.c = "-" THEN TRUE ELSE t.c = "T"

(* Type::width(): Some(w) for Int/UInt/Float/Angle/Complex, else None.  7 encodes None. *)
WidthM(t) == IF t.base \in {"Int", "UInt", "Float", "Angle", "Complex"} THEN t.w ELSE 7

EqualUpToConstnessM(t1, t2) ==
  \/ t1 = t2
  \/ t1.base = t2.base /\ t1.base \in {"Bit", "Duration", "Bool", "Stretch"}
  \/ t1.base = t2.base /\ t1.base \in {"Int", "UInt", "Float", "Complex", "Angle"} /\ t1.w = t2.w
  \/ t1.base = "BitArray" /\ t2.base = "BitArray" /\ t1.nd = t2.nd /\ t1.dk = t2.dk

PromoteConstnessM(t1, t2) == IF IsConstM(t1) /\ IsConstM(t2) THEN "T" ELSE "F"

(* None (7) is the greatest width; otherwise max *)
PromoteWidthM(t1, t2) ==
  LET w1 == WidthM(t1)  w2 == WidthM(t2) IN
  IF w1 = 7 \/ w2 = 7 THEN 7 ELSE IF w1 >= w2 THEN w1 ELSE w2

Mk(b, w, c) == [base |-> b, w |-> w, c |-> c, nd |-> 0, dk |-> 0]

PromoteTypeWidthM(t1, t2) ==
  IF t1.base = t2.base /\ t1.base \in {"Int", "UInt", "Float"}
    THEN Mk(t1.base, PromoteWidthM(t1, t2), PromoteConstnessM(t1, t2))
    ELSE VoidT

(* cross-category promotion returns a clone of the operand of the higher category *)
PromoteBaseTypeM(t1, t2) ==
  CASE t1.base \in {"Int", "UInt"} /\ t2.base = "Float"   -> t2
    [] t1.base = "Float" /\ t2.base = "Complex"            -> t2
    [] t1.base \in {"Int", "UInt"} /\ t2.base = "Complex" -> t2
    [] t1.base = "Float" /\ t2.base \in {"Int", "UInt"}   -> t1
    [] t1.base = "Complex" /\ t2.base \in {"Float", "Int", "UInt"} -> t1
    [] OTHER -> VoidT

PromoteTypesNotEqualM(t1, t2) ==
  LET t == PromoteTypeWidthM(t1, t2) IN
  IF t # VoidT THEN t ELSE PromoteBaseTypeM(t1, t2)

PromoteTypesM(t1, t2) ==
  IF EqualUpToConstnessM(t1, t2) THEN t1 ELSE PromoteTypesNotEqualM(t1, t2)

EqualBaseTypeM(t1, t2) == t1.base = t2.base

CanCastLiteralM(t1, tl) ==
  \/ EqualBaseTypeM(t1, tl)
  \/ t1.base = "Float" /\ tl.base \in {"Int", "UInt"}
  \/ t1.base = "Complex" /\ tl.base \in {"Float", "Int", "UInt"}

ImplicitCastM(op, t1, t2) ==
  IF op = "Div" /\ ~(t1.base \in {"Float", "Complex"} \/ t2.base \in {"Float", "Complex"})
    THEN Mk("Float", 7, "F")
    ELSE PromoteTypesM(t1, t2)
=============================================================================
