SPECIFICATION Spec
POSTCONDITION Finished
CHECK_DEADLOCK FALSE
