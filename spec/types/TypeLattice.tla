---------------------------- MODULE TypeLattice ----------------------------
(***************************************************************************)
(* Requirement spec (R) for C20, written from the statement of the property:*)
(* the order on the numeric tower, what "upper bound", "no common type",    *)
(* "const only if both" and "literal castability" mean.  Nothing here is    *)
(* copied from types.rs.                                                   *)
(*                                                                         *)
(* A type is a record [base, w, c, nd, dk]:                                *)
(*   base  constructor name                                                *)
(*   w     width rank: -1 no width field, 1..6 the widths 1,8,32,64,128,   *)
(*         2^32-1 in increasing order, 7 = 'no width' (above every width)  *)
(*   c     "T" const, "F" not const, "-" constructor has no const flag     *)
(*   nd,dk array shape: number of dimensions and a key for the extents     *)
(***************************************************************************)
EXTENDS Naturals, Integers

Numeric == {"Int", "UInt", "Float", "Complex"}
IsNumeric(t) == t.base \in Numeric

(* int, uint below float below complex *)
KindLeq(k1, k2) ==
  \/ k1 = k2
  \/ k1 \in {"Int", "UInt"} /\ k2 \in {"Float", "Complex"}
  \/ k1 = "Float" /\ k2 = "Complex"

(* 'no width' (7) above every width, larger widths above smaller ones *)
WidthLeq(w1, w2) == w1 <= w2

StripConst(t) == [t EXCEPT !.c = IF @ = "-" THEN "-" ELSE "F"]
EqUpToConst(t1, t2) == StripConst(t1) = StripConst(t2)

(* t1 below-or-equal t2, const-ness ignored *)
Leq(t1, t2) ==
  IF IsNumeric(t1) /\ IsNumeric(t2)
    THEN KindLeq(t1.base, t2.base) /\ WidthLeq(t1.w, t2.w)
    ELSE EqUpToConst(t1, t2)

IsUpperBound(r, a, b) == Leq(a, r) /\ Leq(b, r)

(* whether a pair has a common type at all *)
HasBound(a, b) ==
  IF IsNumeric(a) /\ IsNumeric(b) THEN TRUE      \* complex['no width'] bounds every numeric pair
  ELSE EqUpToConst(a, b)

IsConstT(t) == t.c = "T"

(* The least upper bound, for reference and for the "is a join" reading.   *)
KindJoin(k1, k2) ==
  CASE k1 = k2 -> k1
    [] KindLeq(k1, k2) -> k2
    [] KindLeq(k2, k1) -> k1
    [] OTHER -> "Float"                           \* int vs uint
Max(x, y) == IF x >= y THEN x ELSE y
Join(a, b) ==
  IF IsNumeric(a) /\ IsNumeric(b)
    THEN [base |-> KindJoin(a.base, b.base), w |-> Max(a.w, b.w),
          c |-> IF a.c = "T" /\ b.c = "T" THEN "T" ELSE "F", nd |-> 0, dk |-> 0]
    ELSE [a EXCEPT !.c = IF a.c = "-" THEN "-" ELSE IF a.c = "T" /\ b.c = "T" THEN "T" ELSE "F"]

VoidT == [base |-> "Void", w |-> -1, c |-> "-", nd |-> 0, dk |-> 0]

(***************************************************************************)
(* The clauses of C20 for one ordered pair (a, b) with promotion result r   *)
(* and result r2 of the swapped call.  Each returns TRUE when it holds.     *)
(***************************************************************************)
L_Symmetric(a, b, r, r2)  == EqUpToConst(r, r2)
L_Idempotent(a, b, r)     == a = b => r = a
L_UpperBound(a, b, r)     == r # VoidT => IsUpperBound(r, a, b)
L_ConstOnlyIfBoth(a, b, r) == (r # VoidT /\ IsConstT(r)) => (IsConstT(a) /\ IsConstT(b))
L_VoidExactly(a, b, r)    == (a = VoidT /\ b = VoidT) \/ ((r = VoidT) <=> ~HasBound(a, b))

(* literal castability: target t, literal type l, promotion result r = P(t, l) *)
L_LitSuperset(t, l, r, lit) == (r # VoidT /\ EqUpToConst(r, t)) => lit
L_LitNeverDown(t, l, lit) ==
  ~ ( lit /\ ( \/ (t.base \in {"Int", "UInt"} /\ l.base \in {"Float", "Complex"})
               \/ (t.base = "Float" /\ l.base = "Complex") ) )
=============================================================================
