SPECIFICATION Spec
CONSTANTS
  Chunks <- ChunksC
  MaxLen = 5
  MaxChunks = 5
  Emit = TRUE
INVARIANTS C14_Model Design_Model Table_Model Export
CHECK_DEADLOCK FALSE
