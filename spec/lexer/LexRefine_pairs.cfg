SPECIFICATION Spec
CONSTANTS
  Mode = "pairs"
  MaxLen = 2
  MaxBad = 1
  SepChoice = {0, 1, 2, 3, 4, 5, 6, 7, 8, 9, 10, 11}
CONSTRAINT PairsConstraint
INVARIANTS C15_Model C11_Model
CHECK_DEADLOCK FALSE
