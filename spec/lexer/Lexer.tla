------------------------------- MODULE Lexer -------------------------------
(***************************************************************************)
(* Machine spec (M) of oq3_lexer: Cursor::advance_token and its scanners,    *)
(* one operator per scanner function, as a FUNCTION from the text (a         *)
(* sequence of characters) and a position to the token that starts there.   *)
(* The lexer is a deterministic transducer without state between tokens, so  *)
(* the functional form is exact; `Tokens(s)` iterates it like `tokenize`.    *)
(*                                                                         *)
(* A character is a one-character string for ASCII, or a class name for      *)
(* everything else (the harness maps real text to this alphabet):            *)
(*   "<idstart>"  XID_Start, not ASCII     "<idcont>"  XID_Continue only     *)
(*   "<emoji>"    emoji, not ASCII         "<ws>"      non-ASCII white space *)
(*   "<mu>"       U+00B5 (XID_Start; the micro sign of the unit table)       *)
(*   "<zwj>"      U+200D                   "<other>"   any other non-ASCII   *)
(*   "<ctl>"      ASCII control other than white space, "<nul>" U+0000       *)
(* ("<zwj>" is kept because the code names it, but with the Unicode tables   *)
(* the crate links U+200D is XID_Continue, so real text maps it to <idcont>.)*)
(* A token is [kind, n, flags] with n = number of characters.                *)
(***************************************************************************)
EXTENDS Naturals, Integers, Sequences, FiniteSets, TLC

Lower == {"a","b","c","d","e","f","g","h","i","j","k","l","m","n","o","p","q","r","s","t","u","v","w","x","y","z"}
Upper == {"A","B","C","D","E","F","G","H","I","J","K","L","M","N","O","P","Q","R","S","T","U","V","W","X","Y","Z"}
Digits == {"0","1","2","3","4","5","6","7","8","9"}
HexLetters == {"a","b","c","d","e","f","A","B","C","D","E","F"}
EOFC == "<eof>"          \* what first()/second() return past the end ('\0' in the code)
NUL == "<nul>"           \* a real U+0000 in the text: indistinguishable from EOFC for first()/second()

IsWs(c) == c \in {" ", "\t", "\n", "\r", "<vt>", "<ff>", "<ws>"}
IsIdStart(c) == c \in Lower \cup Upper \cup {"_", "<idstart>", "<mu>"}
IsIdCont(c) == c \in Lower \cup Upper \cup Digits \cup {"_", "<idstart>", "<idcont>", "<mu>"}
IsDigit(c) == c \in Digits
IsEmoji(c) == c = "<emoji>"

(* cursor primitives over (s, i): i is the index of the next unread character *)
At(s, i) == IF i <= Len(s) THEN (IF s[i] = NUL THEN EOFC ELSE s[i]) ELSE EOFC      \* first()
IsEof(s, i) == i > Len(s)

(* eat_while(p): stops at end of input or at the first character for which p fails.  NB: the loop is  *)
(* `while predicate(self.first()) && !self.is_eof()`; a real NUL reads as EOFC through first().        *)
(* Predicates are given as character sets (EatIn) or as "anything but c" (EatUntil).                   *)
RECURSIVE EatIn(_, _, _), EatUntil(_, _, _)
EatIn(s, i, S) == IF i > Len(s) \/ At(s, i) \notin S THEN i ELSE EatIn(s, i + 1, S)
EatUntil(s, i, c) == IF i > Len(s) \/ At(s, i) = c THEN i ELSE EatUntil(s, i + 1, c)
WsSet == {" ", "\t", "\n", "\r", "<vt>", "<ff>", "<ws>"}
IdContSet == Lower \cup Upper \cup Digits \cup {"_", "<idstart>", "<idcont>", "<mu>"}

(* eat_decimal_digits: digits and underscores; returns [i, has] *)
DecDigits(s, i) == LET j == EatIn(s, i, Digits \cup {"_"}) IN
                     [i |-> j, has |-> \E k \in i..(j - 1) : s[k] \in Digits]
HexDigits(s, i) == LET j == EatIn(s, i, Digits \cup HexLetters \cup {"_"}) IN
                     [i |-> j, has |-> \E k \in i..(j - 1) : s[k] \in Digits \cup HexLetters]
(* eat_float_exponent: optional sign, then decimal digits *)
FloatExponent(s, i) == LET i1 == IF At(s, i) \in {"-", "+"} THEN i + 1 ELSE i IN DecDigits(s, i1)
(* eat_identifier (literal suffix) *)
EatIdentifier(s, i) == IF IsIdStart(At(s, i)) THEN EatIn(s, i + 1, IdContSet) ELSE i
(* has_timing_or_imaginary_suffix *)
HasUnit(s, i) == \/ At(s, i) = "s"
                 \/ <<At(s, i), At(s, i + 1)>> \in {<<"d", "t">>, <<"n", "s">>, <<"u", "s">>, <<"m", "s">>, <<"<mu>", "s">>, <<"i", "m">>}
Suffix(s, i) == IF HasUnit(s, i) THEN i ELSE EatIdentifier(s, i)

Tok(kind, start, end, flags) == [kind |-> kind, n |-> end - start, flags |-> flags]
NoFlags == <<>>

(* fake_ident_or_unknown_prefix *)
FakeIdent(s, i) == EatIn(s, i, IdContSet \cup {"<emoji>", "<zwj>"})
(* ident_or_unknown_prefix, start already eaten: returns [kind, i] *)
IdentRest(s, i) == LET j == EatIn(s, i, IdContSet) IN
                     IF IsEmoji(At(s, j)) THEN [kind |-> "InvalidIdent", i |-> FakeIdent(s, j)] ELSE [kind |-> "Ident", i |-> j]

(* have_pragma: called after 'p' (or "#p") has been consumed; returns the end position or 0 *)
Matches(s, i, word) == \A k \in 1..Len(word) : At(s, i + k - 1) = word[k]
PragmaEnd(s, i) == IF Matches(s, i, <<"r", "a", "g", "m", "a">>) /\ IsWs(At(s, i + 5))
                   THEN EatUntil(s, i + 5, "\n") ELSE 0
(* how many characters of "ragma" have_pragma consumes before giving up (it bumps as it matches) *)
PragmaPartial(s, i) == LET w == <<"r", "a", "g", "m", "a">>
                           ks == { k \in 0..5 : \A j \in 1..k : At(s, i + j - 1) = w[j] }
                       IN i + (CHOOSE k \in ks : \A m \in ks : m <= k)

(* number(first_digit) with the first digit at position i0 (already consumed); returns [kind, i, flags] *)
Number(s, i0) ==
  LET i == i0 + 1
      first == s[i0]
      c == At(s, i)
      based(b, r) == IF r.has THEN [early |-> FALSE, base |-> b, i |-> r.i] ELSE [early |-> TRUE, base |-> b, i |-> r.i]
      pre == IF first = "0" THEN
               CASE c = "b" -> based("Binary", DecDigits(s, i + 1))
                 [] c = "o" -> based("Octal", DecDigits(s, i + 1))
                 [] c = "x" -> based("Hexadecimal", HexDigits(s, i + 1))
                 [] c \in Digits \cup {"_"} -> [early |-> FALSE, base |-> "Decimal", i |-> DecDigits(s, i).i]
                 [] c \in {".", "e", "E"} -> [early |-> FALSE, base |-> "Decimal", i |-> i]
                 [] OTHER -> [early |-> TRUE, base |-> "Zero", i |-> i]
             ELSE [early |-> FALSE, base |-> "Decimal", i |-> DecDigits(s, i).i]
  IN IF pre.early THEN [kind |-> "Int", i |-> pre.i, flags |-> IF pre.base = "Zero" THEN <<"Decimal">> ELSE <<pre.base, "empty_int">>]
     ELSE LET j == pre.i  d == At(s, j) IN
       CASE d = "." ->
              (* digits after the dot are optional; an exponent may follow in either case *)
              LET j1 == IF IsDigit(At(s, j + 1)) THEN DecDigits(s, j + 1).i ELSE j + 1
                  ex == IF At(s, j1) \in {"e", "E"} THEN FloatExponent(s, j1 + 1) ELSE [i |-> j1, has |-> TRUE]
              IN [kind |-> "Float", i |-> ex.i, flags |-> IF ex.has THEN <<pre.base>> ELSE <<pre.base, "empty_exponent">>]
         [] d \in {"e", "E"} ->
              LET ex == FloatExponent(s, j + 1) IN
              [kind |-> "Float", i |-> ex.i, flags |-> IF ex.has THEN <<pre.base>> ELSE <<pre.base, "empty_exponent">>]
         [] OTHER -> [kind |-> "Int", i |-> j, flags |-> <<pre.base>>]

(* float_with_no_leading_digit: '.' at i0, a digit follows *)
DotFloat(s, i0) ==
  LET j == DecDigits(s, i0 + 1).i
      ex == IF At(s, j) \in {"e", "E"} THEN FloatExponent(s, j + 1) ELSE [i |-> j, has |-> TRUE]
  IN [kind |-> "Float", i |-> ex.i, flags |-> IF ex.has THEN <<"Decimal">> ELSE <<"Decimal", "empty_exponent">>]

(* block_comment: "/*" at i0; nested; returns [i, terminated] *)
RECURSIVE BlockScan(_, _, _)
BlockScan(s, i, depth) ==
  IF IsEof(s, i) THEN [i |-> i, terminated |-> FALSE]
  ELSE LET c == s[i] IN
    IF c = "/" /\ At(s, i + 1) = "*" THEN BlockScan(s, i + 2, depth + 1)
    ELSE IF c = "*" /\ At(s, i + 1) = "/" THEN (IF depth = 1 THEN [i |-> i + 2, terminated |-> TRUE] ELSE BlockScan(s, i + 2, depth - 1))
    ELSE BlockScan(s, i + 1, depth)

(* double_quoted_string / single_quoted_string: quote q at i0; returns [i, terminated, bits, cu] *)
RECURSIVE StrScan(_, _, _, _, _, _, _)
StrScan(s, i, q, bits, cu, nl, prev) ==
  IF IsEof(s, i) THEN
       [i |-> i, terminated |-> FALSE, cu |-> cu,
        bits |-> IF nl > 0 /\ ~(nl = 1 /\ prev = "\n") THEN FALSE ELSE bits]
  ELSE LET c == s[i] IN
    CASE c = q -> [i |-> i + 1, terminated |-> TRUE, cu |-> cu, bits |-> IF nl > 0 THEN FALSE ELSE bits]
      [] c = "\\" /\ At(s, i + 1) \in {"\\", q} -> StrScan(s, i + 2, q, FALSE, cu, nl, c)
      [] c = "\n" -> StrScan(s, i + 1, q, IF nl + 1 > 1 THEN FALSE ELSE bits, cu, nl + 1, c)
      [] c = "_" -> StrScan(s, i + 1, q, bits, cu \/ prev = "_", nl, c)
      [] c \in {"0", "1"} -> StrScan(s, i + 1, q, bits, cu, nl, c)
      [] OTHER -> StrScan(s, i + 1, q, FALSE, cu, nl, c)
Quoted(s, i0, q) ==
  LET r == StrScan(s, i0 + 1, q, TRUE, FALSE, 0, "<none>")
      endi == IF r.terminated THEN EatIdentifier(s, r.i) ELSE r.i
      kind == IF r.bits THEN "BitStr" ELSE "Str"
      fl == (IF r.terminated THEN <<>> ELSE <<"unterminated">>) \o (IF r.bits /\ r.cu THEN <<"consecutive_underscores">> ELSE <<>>)
  IN [kind |-> kind, i |-> endi, flags |-> fl, ss |-> r.i - i0]

(* openqasm: 'O' at i0; have_openqasm consumes "PENQASM" as far as it matches *)
OpenQasm(s, i0) ==
  LET w == <<"P", "E", "N", "Q", "A", "S", "M">>
      ks == { k \in 0..7 : \A j \in 1..k : At(s, i0 + j) = w[j] }
      k == CHOOSE k \in ks : \A m \in ks : m <= k
      j == i0 + 1 + k
  IN IF k = 7 /\ IsWs(At(s, j)) THEN
       LET j1 == EatIn(s, j, WsSet)
           maj == DecDigits(s, j1)
       IN IF ~maj.has THEN [kind |-> "OpenQasmVersionStmt", i |-> maj.i, flags |-> <<"bad_major">>]
          ELSE LET mn == IF At(s, maj.i) = "." THEN DecDigits(s, maj.i + 1) ELSE [i |-> maj.i, has |-> TRUE]
               IN IF ~mn.has THEN [kind |-> "OpenQasmVersionStmt", i |-> mn.i, flags |-> <<"bad_minor">>]
                  ELSE IF At(s, mn.i) # ";" /\ ~IsWs(At(s, mn.i)) THEN [kind |-> "OpenQasmVersionStmt", i |-> mn.i, flags |-> <<"bad_major">>]
                  ELSE [kind |-> "OpenQasmVersionStmt", i |-> mn.i, flags |-> <<>>]
     ELSE LET r == IdentRest(s, j) IN [kind |-> r.kind, i |-> r.i, flags |-> <<>>]

Punct == [c \in {";", ",", "(", ")", "{", "}", "[", "]", "~", "?", ":", "=", "!", "<", ">", "-", "&", "|", "+", "*", "^", "%"} |->
            CASE c = ";" -> "Semi" [] c = "," -> "Comma" [] c = "(" -> "OpenParen" [] c = ")" -> "CloseParen" [] c = "{" -> "OpenBrace"
              [] c = "}" -> "CloseBrace" [] c = "[" -> "OpenBracket" [] c = "]" -> "CloseBracket" [] c = "~" -> "Tilde" [] c = "?" -> "Question"
              [] c = ":" -> "Colon" [] c = "=" -> "Eq" [] c = "!" -> "Bang" [] c = "<" -> "Lt" [] c = ">" -> "Gt" [] c = "-" -> "Minus"
              [] c = "&" -> "And" [] c = "|" -> "Or" [] c = "+" -> "Plus" [] c = "*" -> "Star" [] c = "^" -> "Caret" [] c = "%" -> "Percent"]

(* advance_token at position i0 (1 <= i0 <= Len(s)): [kind, i (position after the token), flags] *)
Advance(s, i0) ==
  LET c == s[i0]      \* bump() returns the real character (a NUL is a character here, not EOF)
      i == i0 + 1
  IN CASE c = "/" -> (IF At(s, i) = "/" THEN [kind |-> "LineComment", i |-> EatUntil(s, i + 1, "\n"), flags |-> <<>>]
                      ELSE IF At(s, i) = "*" THEN LET r == BlockScan(s, i + 1, 1) IN [kind |-> "BlockComment", i |-> r.i, flags |-> IF r.terminated THEN <<>> ELSE <<"unterminated">>]
                      ELSE [kind |-> "Slash", i |-> i, flags |-> <<>>])
       [] IsWs(c) -> [kind |-> "Whitespace", i |-> EatIn(s, i, WsSet), flags |-> <<>>]
       [] c = "p" -> (LET e == PragmaEnd(s, i) IN
                      IF e # 0 THEN [kind |-> "Pragma", i |-> e, flags |-> <<>>]
                      ELSE LET r == IdentRest(s, PragmaPartial(s, i)) IN [kind |-> r.kind, i |-> r.i, flags |-> <<>>])
       [] c = "O" -> OpenQasm(s, i0)
       [] IsIdStart(c) -> (LET r == IdentRest(s, i) IN [kind |-> r.kind, i |-> r.i, flags |-> <<>>])
       [] IsDigit(c) -> (LET r == Number(s, i0) IN [kind |-> r.kind, i |-> Suffix(s, r.i), flags |-> r.flags, ss |-> r.i - i0])
       [] c = "#" -> (IF At(s, i) = "p" THEN
                        (LET e == PragmaEnd(s, i + 1) IN IF e # 0 THEN [kind |-> "Pragma", i |-> e, flags |-> <<>>]
                                                         ELSE [kind |-> "InvalidIdent", i |-> PragmaPartial(s, i + 1), flags |-> <<>>])
                      ELSE IF At(s, i) = "d" THEN
                        (IF Matches(s, i, <<"d", "i", "m">>) THEN [kind |-> "Dim", i |-> i + 3, flags |-> <<>>]
                         ELSE [kind |-> "InvalidIdent", i |-> (IF At(s, i + 1) = "i" THEN i + 2 ELSE i + 1), flags |-> <<>>])
                      ELSE [kind |-> "InvalidIdent", i |-> i, flags |-> <<>>])
       [] c = "@" -> (IF IsIdStart(At(s, i)) THEN [kind |-> "Annotation", i |-> EatUntil(s, i, "\n"), flags |-> <<>>]
                      ELSE [kind |-> "At", i |-> i, flags |-> <<>>])
       [] c = "." -> (IF IsDigit(At(s, i)) THEN (LET r == DotFloat(s, i0) IN [kind |-> r.kind, i |-> Suffix(s, r.i), flags |-> r.flags, ss |-> r.i - i0])
                      ELSE [kind |-> "Dot", i |-> i, flags |-> <<>>])
       [] c = "$" -> (IF IsEmoji(At(s, i)) THEN [kind |-> "InvalidIdent", i |-> FakeIdent(s, EatIn(s, i, IdContSet)), flags |-> <<>>]
                      ELSE IF IsDigit(At(s, i)) THEN [kind |-> "HardwareIdent", i |-> DecDigits(s, i).i, flags |-> <<>>]
                      ELSE [kind |-> "Dollar", i |-> i, flags |-> <<>>])
       [] c \in DOMAIN Punct -> [kind |-> Punct[c], i |-> i, flags |-> <<>>]
       [] c = "\"" -> Quoted(s, i0, "\"")
       [] c = "'" -> Quoted(s, i0, "'")
       [] IsEmoji(c) -> [kind |-> "InvalidIdent", i |-> FakeIdent(s, i), flags |-> <<>>]
       [] OTHER -> [kind |-> "Unknown", i |-> i, flags |-> <<>>]

(* tokenize: iterate advance_token until the end *)
RECURSIVE TokensFrom(_, _)
TokensFrom(s, i) ==
  IF i > Len(s) THEN <<>>
  ELSE LET t == Advance(s, i) IN
       << [kind |-> t.kind, n |-> t.i - i, flags |-> t.flags,
           ss |-> IF "ss" \in DOMAIN t THEN t.ss ELSE 0] >> \o TokensFrom(s, t.i)     \* ss: literal suffix offset (0 for non-literals)
Tokens(s) == TokensFrom(s, 1)

(***************************************************************************)
(* Invariants of M (checked by TLC over all strings up to a length)          *)
(***************************************************************************)
RECURSIVE SumN(_)
SumN(ts) == IF ts = <<>> THEN 0 ELSE ts[1].n + SumN(Tail(ts))
TokenNonEmptyOn(ts) == \A i \in 1..Len(ts) : ts[i].n >= 1
SuffixWithinOn(ts) == \A i \in 1..Len(ts) : ts[i].ss <= ts[i].n /\ (ts[i].kind \in {"Int", "Float", "Str", "BitStr"} => ts[i].ss >= 1)
PartitionOn(s, ts) == SumN(ts) = Len(s)
TokenNonEmpty(s) == TokenNonEmptyOn(Tokens(s))
Partition(s) == PartitionOn(s, Tokens(s))
=============================================================================
