----------------------------- MODULE TokenTable -----------------------------
(***************************************************************************)
(* Machine spec (M) of oq3_parser::lexed_str: LexedStr::new = tokenize +     *)
(* Converter::extend_token.  Each lexer token becomes one row                *)
(*     [kind (SyntaxKind name), st (first character), n (characters), err]   *)
(* of the parser-facing token table; err is the lexical diagnostic attached  *)
(* to the row ("" for none).  The keyword and scalar-type tables are the     *)
(* ones of SyntaxKind::from_keyword / from_scalar_type.                      *)
(***************************************************************************)
EXTENDS Lexer

Chars(str) == [i \in 1..Len(str) |-> SubSeq(str, i, i)]     \* TLC: SubSeq works on strings

KeywordPairs == {
  <<"OPENQASM", "O_P_E_N_Q_A_S_M_KW">>, <<"barrier", "BARRIER_KW">>, <<"box", "BOX_KW">>, <<"cal", "CAL_KW">>, <<"const", "CONST_KW">>,
  <<"def", "DEF_KW">>, <<"defcal", "DEFCAL_KW">>, <<"defcalgrammar", "DEFCALGRAMMAR_KW">>, <<"delay", "DELAY_KW">>,
  <<"extern", "EXTERN_KW">>, <<"gate", "GATE_KW">>, <<"gphase", "GPHASE_KW">>, <<"include", "INCLUDE_KW">>, <<"let", "LET_KW">>,
  <<"measure", "MEASURE_KW">>, <<"pragma", "PRAGMA_KW">>, <<"dim", "DIM_KW">>, <<"reset", "RESET_KW">>, <<"break", "BREAK_KW">>,
  <<"case", "CASE_KW">>, <<"continue", "CONTINUE_KW">>, <<"default", "DEFAULT_KW">>, <<"else", "ELSE_KW">>, <<"end", "END_KW">>,
  <<"for", "FOR_KW">>, <<"if", "IF_KW">>, <<"in", "IN_KW">>, <<"return", "RETURN_KW">>, <<"switch", "SWITCH_KW">>, <<"while", "WHILE_KW">>,
  <<"array", "ARRAY_KW">>, <<"creg", "CREG_KW">>, <<"input", "INPUT_KW">>, <<"mutable", "MUTABLE_KW">>, <<"output", "OUTPUT_KW">>,
  <<"qreg", "QREG_KW">>, <<"qubit", "QUBIT_KW">>, <<"readonly", "READONLY_KW">>, <<"void", "VOID_KW">>, <<"ctrl", "CTRL_KW">>,
  <<"inv", "INV_KW">>, <<"negctrl", "NEGCTRL_KW">>, <<"pow", "POW_KW">>, <<"false", "FALSE_KW">>, <<"true", "TRUE_KW">> }
ScalarTypePairs == {
  <<"angle", "ANGLE_TY">>, <<"bit", "BIT_TY">>, <<"bool", "BOOL_TY">>, <<"complex", "COMPLEX_TY">>, <<"duration", "DURATION_TY">>,
  <<"float", "FLOAT_TY">>, <<"int", "INT_TY">>, <<"stretch", "STRETCH_TY">>, <<"uint", "UINT_TY">> }
(* constant-level: TLC evaluates these once *)
MapOf(pairs) == [cs \in { Chars(p[1]) : p \in pairs } |-> (CHOOSE p \in pairs : Chars(p[1]) = cs)[2]]
KeywordMap == MapOf(KeywordPairs)
ScalarTypeMap == MapOf(ScalarTypePairs)

PunctKind == [k \in {"Semi", "Comma", "Dot", "OpenParen", "CloseParen", "OpenBrace", "CloseBrace", "OpenBracket", "CloseBracket", "At", "Pound",
                     "Tilde", "Question", "Colon", "Dollar", "Eq", "Bang", "Lt", "Gt", "Minus", "And", "Or", "Plus", "Star", "Slash", "Caret", "Percent"} |->
  CASE k = "Semi" -> "SEMICOLON" [] k = "Comma" -> "COMMA" [] k = "Dot" -> "DOT" [] k = "OpenParen" -> "L_PAREN" [] k = "CloseParen" -> "R_PAREN"
    [] k = "OpenBrace" -> "L_CURLY" [] k = "CloseBrace" -> "R_CURLY" [] k = "OpenBracket" -> "L_BRACK" [] k = "CloseBracket" -> "R_BRACK"
    [] k = "At" -> "AT" [] k = "Pound" -> "POUND" [] k = "Tilde" -> "TILDE" [] k = "Question" -> "QUESTION" [] k = "Colon" -> "COLON"
    [] k = "Dollar" -> "DOLLAR" [] k = "Eq" -> "EQ" [] k = "Bang" -> "BANG" [] k = "Lt" -> "L_ANGLE" [] k = "Gt" -> "R_ANGLE" [] k = "Minus" -> "MINUS"
    [] k = "And" -> "AMP" [] k = "Or" -> "PIPE" [] k = "Plus" -> "PLUS" [] k = "Star" -> "STAR" [] k = "Slash" -> "SLASH" [] k = "Caret" -> "CARET"
    [] k = "Percent" -> "PERCENT"]

Has(flags, f) == \E i \in 1..Len(flags) : flags[i] = f

(* inner_extend_token / extend_literal_func: [kind, err] for one lexer token with text txt (a character sequence) *)
Convert(t, txt) ==
  CASE t.kind = "LineComment" -> [kind |-> "COMMENT", err |-> ""]
    [] t.kind = "BlockComment" -> [kind |-> "COMMENT", err |-> IF Has(t.flags, "unterminated") THEN "Missing trailing `*/` symbols to terminate the block comment" ELSE ""]
    [] t.kind = "OpenQasmVersionStmt" ->
         [kind |-> "VERSION_STRING",
          err |-> IF Has(t.flags, "bad_major") THEN "Invalid version number in OpenQASM version statement"
                  ELSE IF Has(t.flags, "bad_minor") THEN "Invalid minor version in OpenQASM version statement" ELSE ""]
    [] t.kind = "Whitespace" -> [kind |-> "WHITESPACE", err |-> ""]
    [] t.kind = "Ident" ->
         [kind |-> IF txt = <<"_">> THEN "UNDERSCORE"
                   ELSE IF txt \in DOMAIN KeywordMap THEN KeywordMap[txt]
                   ELSE IF txt \in DOMAIN ScalarTypeMap THEN ScalarTypeMap[txt] ELSE "IDENT",
          err |-> ""]
    [] t.kind = "HardwareIdent" -> [kind |-> IF txt \in DOMAIN KeywordMap THEN KeywordMap[txt] ELSE "HARDWAREIDENT", err |-> ""]
    [] t.kind = "InvalidIdent" -> [kind |-> "IDENT", err |-> "Identifier contains invalid characters"]
    [] t.kind = "Pragma" -> [kind |-> "PRAGMA", err |-> ""]
    [] t.kind = "Annotation" -> [kind |-> "ANNOTATION", err |-> ""]
    [] t.kind = "Int" -> [kind |-> "INT_NUMBER", err |-> IF Has(t.flags, "empty_int") THEN "Missing digits after the integer base prefix" ELSE ""]
    [] t.kind = "Float" -> [kind |-> "FLOAT_NUMBER", err |-> IF Has(t.flags, "empty_exponent") THEN "Missing digits after the exponent symbol" ELSE ""]
    [] t.kind = "Str" -> [kind |-> "STRING", err |-> IF Has(t.flags, "unterminated") THEN "Missing trailing `\"` symbol to terminate the string literal" ELSE ""]
    [] t.kind = "BitStr" ->
         [kind |-> "BIT_STRING",
          err |-> IF Has(t.flags, "unterminated") THEN "Missing trailing `\"` symbol to terminate the bitstring literal"
                  ELSE IF Has(t.flags, "consecutive_underscores") THEN "Consecutive underscores not allowed in bitstring literal" ELSE ""]
    [] t.kind = "Unknown" -> [kind |-> "ERROR", err |-> ""]
    [] t.kind = "Dim" -> [kind |-> "DIM_KW", err |-> ""]
    [] t.kind \in DOMAIN PunctKind -> [kind |-> PunctKind[t.kind], err |-> ""]

RECURSIVE TableFrom(_, _, _, _)
TableFrom(s, ts, k, at) ==
  IF k > Len(ts) THEN <<>>
  ELSE LET t == ts[k]
           c == Convert(t, SubSeq(s, at, at + t.n - 1))
       IN << [kind |-> c.kind, st |-> at, n |-> t.n, err |-> c.err] >> \o TableFrom(s, ts, k + 1, at + t.n)
(* the token table without the final EOF row *)
Table(s) == TableFrom(s, Tokens(s), 1, 1)
IsTriviaKind(k) == k \in {"WHITESPACE", "COMMENT"}

(***************************************************************************)
(* Text written in the specs as a TLA+ string -> the model's characters.     *)
(* %%XXXX; stands for the code point U+XXXX (TLC cannot print non-ASCII       *)
(* text); the escapes the spec suite uses are mapped to their class.         *)
(***************************************************************************)
EscClass == [ x \in {"03C0", "03C4", "2107", "03B8", "5909", "6570", "00E9", "00B5", "1F600"} |->
              CASE x = "00B5" -> "<mu>" [] x = "1F600" -> "<emoji>" [] OTHER -> "<idstart>" ]
RECURSIVE Decode(_, _)
Decode(str, i) ==
  IF i > Len(str) THEN <<>>
  ELSE IF i + 1 <= Len(str) /\ SubSeq(str, i, i + 1) = "%%" THEN
         LET j == CHOOSE j \in (i + 2)..Len(str) : SubSeq(str, j, j) = ";" /\ \A m \in (i + 2)..(j - 1) : SubSeq(str, m, m) # ";"
         IN <<EscClass[SubSeq(str, i + 2, j - 1)]>> \o Decode(str, j + 1)
       ELSE <<SubSeq(str, i, i)>> \o Decode(str, i + 1)
ModelChars(str) == Decode(str, 1)

(***************************************************************************)
(* LexedStr::to_input (shortcuts.rs): the parser's Input - the non-trivia    *)
(* rows as [k, j]; a token is joint when the next row follows it without     *)
(* trivia, and a FLOAT_NUMBER that does not end in '.' is always joint.      *)
(***************************************************************************)
ToInput(s) ==
  LET tab == Table(s)
      idx == SelectSeq([i \in 1..Len(tab) |-> i], LAMBDA i : ~IsTriviaKind(tab[i].kind))
  IN [k \in 1..Len(idx) |->
        LET r == tab[idx[k]] IN
        [k |-> r.kind,
         j |-> (idx[k] + 1 <= Len(tab) /\ ~IsTriviaKind(tab[idx[k] + 1].kind)) \/ (r.kind = "FLOAT_NUMBER" /\ s[r.st + r.n - 1] # ".")]]
LexErrors(s) == SelectSeq(Table(s), LAMBDA x : x.err # "")
=============================================================================
