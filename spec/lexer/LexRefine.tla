----------------------------- MODULE LexRefine -----------------------------
(***************************************************************************)
(* Design-level refinement check for C15 and the lexical half of C11:        *)
(*     Lexer (+) TokenTable  |=  Lexemes                                     *)
(* For every lexeme sequence LexemeGen builds from the requirement spec       *)
(* Lexemes (every ordered pair of pool lexemes with every admissible          *)
(* separator; longer sequences in simulation), the token table the MACHINE    *)
(* specs compute for the rendered text must show exactly those lexemes        *)
(* (kind, exact extent), no lexical error when all are well formed, and an    *)
(* error on a token overlapping every malformed lexeme.  This is the same     *)
(* oracle the harness applies to the real LexedStr; here it is evaluated on   *)
(* the model, so together with the conformance results (MCLexer replay,       *)
(* LexerTrace) it decides the properties for the scanner algorithm itself.    *)
(* Modules Lexemes / LexemeGen are found through -DTLA-Library=../lexemes.    *)
(***************************************************************************)
EXTENDS LexemeGen, TokenTable

(* constant-level caches *)
PoolChars == [i \in 1..NP |-> ModelChars(Pool[i].text)]
SepChars == [i \in 1..NS |-> ModelChars(Seps[i].t)]

(* rendered text and the extent [st, en] (character indices, inclusive) of every lexeme *)
RECURSIVE Render(_, _, _, _)
Render(sq, k, txt, spans) ==
  IF k > Len(sq) THEN [txt |-> txt, spans |-> spans]
  ELSE LET pre == IF sq[k].s = NoSep THEN txt ELSE txt \o SepChars[sq[k].s]
           lx == PoolChars[sq[k].l]
       IN Render(sq, k + 1, pre \o lx, Append(spans, [st |-> Len(pre) + 1, en |-> Len(pre) + Len(lx), l |-> sq[k].l]))

Min(S) == CHOOSE x \in S : \A y \in S : x <= y
(* known deviation of the implementation (known finding C11-uppercase-base-prefix-no-digits): 0B / 0O / 0X get no diagnostic *)
Dev_UppercasePrefixNoDigits(l) == Pool[l].text \in {"0B", "0O", "0X"}

Obs(sq) ==
  LET r == Render(sq, 1, <<>>, <<>>)
      tab == Table(r.txt)
  IN [spans |-> r.spans, rows |-> SelectSeq(tab, LAMBDA x : ~IsTriviaKind(x.kind)), errs |-> SelectSeq(tab, LAMBDA x : x.err # "")]
Overlaps(row, sp) == row.st <= sp.en /\ row.st + row.n - 1 >= sp.st
BadIdx(sq) == { k \in 1..Len(sq) : Pool[sq[k].l].bad }

(* C15 on the model: a sequence of well-formed lexemes shows exactly those lexemes and no lexical error *)
C15_Holds(sq) ==
  LET o == Obs(sq)
      exp == SelectSeq(o.spans, LAMBDA sp : Pool[sp.l].kind # "-")
  IN /\ Len(o.rows) = Len(exp)
     /\ \A k \in 1..Len(exp) : /\ o.rows[k].kind = Pool[exp[k].l].kind
                               /\ o.rows[k].st = exp[k].st /\ o.rows[k].st + o.rows[k].n - 1 = exp[k].en
     /\ o.errs = <<>>
(* C11 (lexical half) on the model: every malformed lexeme carries a diagnostic on a token overlapping it *)
C11_Holds(sq) ==
  LET o == Obs(sq) IN
    \A k \in BadIdx(sq) : Dev_UppercasePrefixNoDigits(sq[k].l) \/ \E e \in 1..Len(o.errs) : Overlaps(o.errs[e], o.spans[k])
C15_Model == (fin /\ BadIdx(seq) = {}) => C15_Holds(seq)
C11_Model == (fin /\ BadIdx(seq) # {}) => C11_Holds(seq)
=============================================================================
