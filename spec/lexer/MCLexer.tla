------------------------------ MODULE MCLexer ------------------------------
(***************************************************************************)
(* Model-checking instance of the machine spec Lexer: the state is a text    *)
(* that grows one character at a time over a finite alphabet; every          *)
(* reachable state is one string, so TLC visits EVERY string over Alpha of   *)
(* length <= MaxLen.  In every state the C14 clauses are evaluated on the     *)
(* model's token stream (non-empty tokens, suffix offset within the token,   *)
(* lengths sum to the text), plus design facts the grammar relies on.  Every *)
(* state is also exported as a CASE (text + the model's token stream) that   *)
(* the harness replays through oq3_lexer::tokenize and LexedStr (B1); the    *)
(* case also carries the rows of the machine spec TokenTable (SyntaxKind and *)
(* lexical diagnostic of every token), compared with the real LexedStr.      *)
(***************************************************************************)
EXTENDS TokenTable, Json
CONSTANTS Chunks,     \* a set of character sequences; a text grows by appending one chunk
          MaxLen,     \* bound on the text length (characters)
          MaxChunks,  \* bound on the number of chunks appended
          Emit
VARIABLES s, nch
One(S) == { <<c>> : c \in S }
(* Alphabets: numbers and units; quotes, escapes, comments; sigils and line-oriented lexemes; words whose     *)
(* prefixes the lexer special-cases (pragma, #pragma, OPENQASM, #dim) as chunks so that texts reach them.     *)
ChunksA == One({"0", "1", "9", "b", "x", "e", "_", ".", "+", "s", "m", "<mu>", " ", "d", "t", "i"})
ChunksB == One({"\"", "'", "\\", "\n", "_", "0", "1", "2", "/", "*", "a", " ", "<idstart>", "<nul>", "\r", "<other>"})
ChunksC == One({"O", "P", "#", "p", "r", "d", "@", "$", "3", ".", ";", " ", "\n", "<emoji>", "<ctl>", "<idcont>"})
ChunksD == One({"#", " ", "\n", "3", ".", ";", "x", "\t", "<ws>", "<nul>", "i", "m"}) \cup
           { <<"p", "r", "a", "g", "m", "a">>, <<"p", "r", "a", "g">>, <<"O", "P", "E", "N", "Q", "A", "S", "M">>, <<"O", "P", "E", "N">>,
             <<"d", "i", "m">>, <<"d", "i">> }
ChunksE == One({"0", "b", "B", "o", "O", "x", "X", "1", "7", "8", "a", "F", "g", "_", "n", "s", "u", "E", "-", "."})
Init == s = <<>> /\ nch = 0
Grow == \E c \in Chunks : Len(s) + Len(c) <= MaxLen /\ nch < MaxChunks /\ s' = s \o c /\ nch' = nch + 1
Next == Grow
Spec == Init /\ [][Next]_<<s, nch>>

C14_Model == LET ts == Tokens(s) IN TokenNonEmptyOn(ts) /\ SuffixWithinOn(ts) /\ PartitionOn(s, ts)
(* Design facts of M that later phases rely on:                                                            *)
(*  - no two adjacent Whitespace tokens (whitespace is maximal);                                             *)
(*  - a LineComment / Pragma / Annotation token never contains a line feed;                                  *)
(*  - an Ident token is never directly followed by an Ident / keyword-like token (identifiers are maximal).  *)
RECURSIVE Starts(_, _, _)
Starts(ts, k, at) == IF k > Len(ts) THEN <<>> ELSE <<at>> \o Starts(ts, k + 1, at + ts[k].n)
Design_Model ==
  LET ts == Tokens(s)
      st == Starts(ts, 1, 1)
  IN /\ \A i \in 1..(Len(ts) - 1) : ~(ts[i].kind = "Whitespace" /\ ts[i + 1].kind = "Whitespace")
     /\ \A i \in 1..Len(ts) : ts[i].kind \in {"LineComment", "Pragma", "Annotation"} =>
            \A k \in st[i]..(st[i] + ts[i].n - 1) : s[k] # "\n"
     /\ \A i \in 1..(Len(ts) - 1) : ts[i].kind = "Ident" => ts[i + 1].kind # "Ident"
(* the parser-facing table (machine spec TokenTable): starts strictly increasing and contiguous, ending at the text length *)
Table_Model == LET tb == Table(s) IN
                 /\ \A i \in 1..Len(tb) : tb[i].n >= 1 /\ tb[i].st = (IF i = 1 THEN 1 ELSE tb[i - 1].st + tb[i - 1].n)
                 /\ (tb # <<>> => tb[Len(tb)].st + tb[Len(tb)].n - 1 = Len(s))
Export == Emit /\ Len(s) >= 1 => PrintT(<<"CASE", ToJson([chars |-> s, toks |-> Tokens(s),
                                                         table |-> [i \in 1..Len(Table(s)) |-> [kind |-> Table(s)[i].kind, err |-> Table(s)[i].err]]])>>)
=============================================================================
