----------------------------- MODULE LexerTrace -----------------------------
(* Trace spec: token streams recorded from oq3_lexer::tokenize on arbitrary texts must be exactly what   *)
(* the machine spec Lexer computes for the same character sequence (kind, length in characters, flags,    *)
(* literal suffix offset).                                                                               *)
EXTENDS Lexer, Json, IOUtils

Rec == ndJsonDeserialize(IOEnv.TRACE)
VARIABLE l
Init == l = 1
(* the model's stream is computed once and compared as a whole *)
Agree(e) == Tokens(e.chars) = [i \in 1..Len(e.toks) |-> [kind |-> e.toks[i].k, n |-> e.toks[i].n, flags |-> e.toks[i].f, ss |-> e.toks[i].ss]]
Step == /\ l <= Len(Rec) /\ Rec[l].ev = "lexm" /\ Agree(Rec[l]) /\ l' = l + 1
Spec == Init /\ [][Step]_l
FirstDiff(e) == LET ts == Tokens(e.chars)
                    bad == { i \in 1..Len(ts) : i > Len(e.toks) \/ ts[i].kind # e.toks[i].k \/ ts[i].n # e.toks[i].n \/ ts[i].flags # e.toks[i].f \/ ts[i].ss # e.toks[i].ss }
                IN IF bad = {} THEN [at |-> 0, model |-> <<>>, len_model |-> Len(ts), len_real |-> Len(e.toks)]
                   ELSE LET i == CHOOSE i \in bad : \A j \in bad : i <= j IN [at |-> i, model |-> ts[i], len_model |-> Len(ts), len_real |-> Len(e.toks)]
Accepted ==
  LET d == TLCGet("stats").diameter IN
    IF d - 1 = Len(Rec) THEN TRUE
    (* a record that is not a token stream (the recorder logs a panic of tokenize as data) is rejected without a diff *)
    ELSE PrintT(<<"REJECT", ToJson([line |-> d, diff |-> IF Rec[d].ev = "lexm" THEN FirstDiff(Rec[d])
                                                          ELSE [at |-> 0, model |-> <<>>, len_model |-> 0, len_real |-> 0]])>>) /\ FALSE
=============================================================================
