SPECIFICATION Spec
CONSTANTS
  Chunks <- ChunksC
  MaxLen = 4
  MaxChunks = 4
  Emit = TRUE
INVARIANTS C14_Model Design_Model Table_Model Export
CHECK_DEADLOCK FALSE
