SPECIFICATION Spec
CONSTANTS
  Files = {"f1", "f2", "f3"}
  Dirs = {"d1", "d2"}
  MaxMain = 1
  SearchChoice = "all"
  EnvChoice = "all"
INVARIANTS IncludeSemHolds Emit
CHECK_DEADLOCK FALSE
