----------------------------- MODULE IncludeSem -----------------------------
(***************************************************************************)
(* Requirement spec (R) for C18: include = in-place textual inclusion with    *)
(* ordered path search.                                                      *)
(*                                                                         *)
(* A configuration is                                                       *)
(*   present  : [Files -> SUBSET Dirs]   the directories that contain a file  *)
(*   nest     : [Files -> Seq(Files)]    the includes written in a file       *)
(*                                       (acyclic: only higher-numbered files)*)
(*   search   : Seq(Dirs) or NoList      the search list given to the API     *)
(*   env      : Seq(Dirs) or NoList      QASM3_PATH                           *)
(*   main     : Seq(include items)       the include statements of the source *)
(* An include item is [kind |-> "rel", f] (relative name), [kind |-> "abs",  *)
(* f, d] (absolute path of f in d), [kind |-> "std"] (stdgates.inc),         *)
(* [kind |-> "block", f] (an include below global scope).                    *)
(* Every copy (f, d) of a file declares its own marker symbol, so the        *)
(* observation tells which copy was analysed and in which order.             *)
(***************************************************************************)
EXTENDS Naturals, Sequences, FiniteSets

NoList == <<"-">>            \* "no list given" (distinct from the empty list)

(* ordered path search *)
FirstHit(list, f, present) ==
  LET hits == { i \in 1..Len(list) : list[i] \in present[f] } IN
    IF hits = {} THEN "none" ELSE list[CHOOSE i \in hits : \A j \in hits : i <= j]
ResolveRel(f, cfg) ==
  IF cfg.search # NoList THEN FirstHit(cfg.search, f, cfg.present)
  ELSE IF cfg.env # NoList THEN FirstHit(cfg.env, f, cfg.present)
  ELSE "none"
Resolve(item, cfg) ==
  IF item.kind = "abs" THEN (IF item.d \in cfg.present[item.f] THEN item.d ELSE "none")
  ELSE ResolveRel(item.f, cfg)

(* The textually expanded program: sequence of markers <<f, d>> of the copies  *)
(* whose statements are analysed, in order; an unreadable include contributes  *)
(* nothing.  Nested includes are relative names.                               *)
RECURSIVE ExpandFile(_, _, _), ExpandSeq(_, _, _)
ExpandFile(f, d, cfg) == << <<f, d>> >> \o ExpandSeq([i \in 1..Len(cfg.nest[f]) |-> [kind |-> "rel", f |-> cfg.nest[f][i]]], cfg, 0)
ExpandSeq(items, cfg, lvl) ==
  IF items = <<>> THEN <<>>
  ELSE LET it == items[1]
           here == CASE it.kind \in {"std", "block"} -> <<>>
                     [] OTHER -> LET d == Resolve(it, cfg) IN IF d = "none" THEN <<>> ELSE ExpandFile(it.f, d, cfg)
       IN here \o ExpandSeq(Tail(items), cfg, lvl)

(* Diagnostics: one list per include site (in order, nested), tagged with the resolved path;   *)
(* an unreadable include is one FileNotFound diagnostic; an include below global scope is     *)
(* reported once in the including file's list and nothing is included.                        *)
RECURSIVE ErrTree(_, _)
ErrTreeFile(f, d, cfg) == [file |-> <<f, d>>, notfound |-> FALSE,
                            kids |-> ErrTree([i \in 1..Len(cfg.nest[f]) |-> [kind |-> "rel", f |-> cfg.nest[f][i]]], cfg)]
ErrTree(items, cfg) ==
  IF items = <<>> THEN <<>>
  ELSE LET it == items[1]
           here == CASE it.kind \in {"std", "block"} -> <<>>
                     [] OTHER -> LET d == Resolve(it, cfg) IN
                          IF d = "none" THEN << [file |-> <<it.f, "none">>, notfound |-> TRUE, kids |-> <<>>] >>
                          ELSE << ErrTreeFile(it.f, d, cfg) >>
       IN here \o ErrTree(Tail(items), cfg)

Required(cfg) == [ markers |-> ExpandSeq(cfg.main, cfg, 0),
                   errtree |-> ErrTree(cfg.main, cfg),
                   blockdiags |-> Cardinality({ i \in 1..Len(cfg.main) : cfg.main[i].kind = "block" }),
                   stdgates |-> \E i \in 1..Len(cfg.main) : cfg.main[i].kind = "std" ]
=============================================================================
