SPECIFICATION Spec
CONSTANTS
  Files = {"f1", "f2", "f3"}
  Dirs = {"d1", "d2"}
  MaxMain = 2
  SearchChoice = "few"
  EnvChoice = "few"
INVARIANTS IncludeSemHolds Emit
CHECK_DEADLOCK FALSE
