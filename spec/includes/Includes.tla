------------------------------ MODULE Includes ------------------------------
(***************************************************************************)
(* Machine spec (M) of include handling, in two phases like the code:        *)
(*  Phase 1  oq3_source_file::parse_included_files: for every TOP-LEVEL      *)
(*           include statement that is not stdgates.inc, in order, resolve    *)
(*           the path (resolve_file_path) and read+parse the file             *)
(*           recursively; the results form the vector `included`.            *)
(*  Phase 2  oq3_semantics::syntax_to_semantic: walk the statements; at an    *)
(*           include take the NEXT element of `included` (included_iter) and  *)
(*           analyse it recursively, pushing its diagnostics as a list        *)
(*           tagged with its path.                                            *)
(* The configuration is chosen in Init; the machine runs deterministically.  *)
(***************************************************************************)
EXTENDS Naturals, Sequences, FiniteSets, TLC, Json

CONSTANTS Files, Dirs, MaxMain, SearchChoice, EnvChoice   \* SearchChoice/EnvChoice: "all" or "few"

R == INSTANCE IncludeSem
NoList == R!NoList

VARIABLES cfg, phase, parsed, stream, errs, done
vars == <<cfg, phase, parsed, stream, errs, done>>

FileSeq == <<"f1", "f2", "f3">>
Idx(f) == CHOOSE i \in 1..Len(FileSeq) : FileSeq[i] = f
DirLists == {<<>>} \cup {<<d>> : d \in Dirs} \cup {<<d, e>> : d \in Dirs, e \in Dirs}
Items == {[kind |-> "rel", f |-> f] : f \in Files} \cup {[kind |-> "abs", f |-> f, d |-> d] : f \in Files, d \in Dirs}
         \cup {[kind |-> "std"]} \cup {[kind |-> "block", f |-> f] : f \in Files}
Mains == UNION { [1..n -> Items] : n \in 1..MaxMain }
Nests == { n \in [Files -> {<<>>} \cup {<<g>> : g \in Files}] : \A f \in Files : \A i \in 1..Len(n[f]) : Idx(n[f][i]) > Idx(f) }

Init ==
  /\ cfg \in [ present : [Files -> SUBSET Dirs], nest : Nests,
               search : IF SearchChoice = "all" THEN DirLists \cup {NoList} ELSE {NoList, <<"d1", "d2">>, <<"d2">>},
               env : IF EnvChoice = "all" THEN DirLists \cup {NoList} ELSE {NoList, <<"d1">>},
               main : Mains,
               shadow : SUBSET Dirs ]       \* directories in which the NAME of f1 exists as a directory entry, not as a file
  /\ cfg.shadow \cap cfg.present["f1"] = {}
  /\ \A i \in 1..Len(cfg.main) : (cfg.main[i].kind = "abs" /\ cfg.main[i].f = "f1") => cfg.main[i].d \notin cfg.shadow
  /\ phase = "parse" /\ parsed = <<>> /\ stream = <<>> /\ errs = <<>> /\ done = FALSE

(* resolve_file_path: a directory "contains" an include only if the entry of that name is a FILE (is_file); an entry of    *)
(* another kind (cfg.shadow: a directory of that name) is passed over, exactly as an absent entry - so `shadow` occurs in  *)
(* neither ResolveM nor IncludeSem, and the replay must observe that it makes no difference.                               *)
ResolveM(item) ==
  IF item.kind = "abs" THEN (IF item.d \in cfg.present[item.f] THEN item.d ELSE "none")
  ELSE IF cfg.search # NoList THEN R!FirstHit(cfg.search, item.f, cfg.present)
  ELSE IF cfg.env # NoList THEN R!FirstHit(cfg.env, item.f, cfg.present)
  ELSE "none"

(* Phase 1: parse_included_files over a list of include items (top-level statements only) *)
RECURSIVE ParseIncluded(_)
ParseIncluded(items) ==
  IF items = <<>> THEN <<>>
  ELSE LET it == items[1]
           here == CASE it.kind \in {"std", "block"} -> <<>>           \* stdgates skipped; nested includes are not top-level statements
                     [] OTHER -> LET d == ResolveM(it) IN
                          IF d = "none" THEN << [file |-> <<it.f, "none">>, err |-> TRUE, included |-> <<>>] >>
                          ELSE << [file |-> <<it.f, d>>, err |-> FALSE,
                                   included |-> ParseIncluded([i \in 1..Len(cfg.nest[it.f]) |-> [kind |-> "rel", f |-> cfg.nest[it.f][i]]])] >>
       IN here \o ParseIncluded(Tail(items))

(* Phase 2: syntax_to_semantic with the cursor included_iter *)
RECURSIVE Analyze(_, _)
(* returns [markers, tree] for a list of items analysed against the vector inc *)
Analyze(items, inc) ==
  IF items = <<>> THEN [markers |-> <<>>, tree |-> <<>>]
  ELSE LET it == items[1] IN
       IF it.kind \in {"std", "block"} THEN Analyze(Tail(items), inc)
       ELSE LET src == inc[1]                                          \* included_iter.next().unwrap()
                sub == IF src.err THEN [markers |-> <<>>, tree |-> <<>>]
                       ELSE Analyze([i \in 1..Len(cfg.nest[src.file[1]]) |-> [kind |-> "rel", f |-> cfg.nest[src.file[1]][i]]], src.included)
                rest == Analyze(Tail(items), Tail(inc))
            IN [markers |-> (IF src.err THEN <<>> ELSE << src.file >>) \o sub.markers \o rest.markers,
                tree |-> << [file |-> src.file, notfound |-> src.err, kids |-> sub.tree] >> \o rest.tree]

Parse ==
  /\ phase = "parse"
  /\ parsed' = ParseIncluded(cfg.main)
  /\ phase' = "analyze"
  /\ UNCHANGED <<cfg, stream, errs, done>>
Run ==
  /\ phase = "analyze"
  /\ LET r == Analyze(cfg.main, parsed) IN stream' = r.markers /\ errs' = r.tree
  /\ phase' = "done" /\ done' = TRUE
  /\ UNCHANGED <<cfg, parsed>>
Next == Parse \/ Run
Spec == Init /\ [][Next]_vars

Req == R!Required(cfg)
(* LockStep + IncludeSem: the analysed stream and the diagnostic lists are those of textual inclusion *)
IncludeSemHolds == done => (stream = Req.markers /\ errs = Req.errtree)
Emit == done => PrintT(<<"CASE", ToJson([cfg |-> cfg, req |-> Req])>>)
=============================================================================
