----------------------------- MODULE TreeTrace -----------------------------
(* Trace spec: consumes the NDJSON observations recorded by the harness from   *)
(* SourceFile::parse / parse_check_lex on the robustness corpus.  An event is   *)
(* consumed only if it is a returned parse ("tree" event, not "panic") and      *)
(* TreeShape!Holds; the trace is accepted iff every line was consumed.          *)
EXTENDS TreeShape, Json, IOUtils, TLC

Rec == ndJsonDeserialize(IOEnv.TRACE)
VARIABLE l
Init == l = 1
Parsed == /\ l <= Len(Rec) /\ Rec[l].ev = "tree" /\ Holds(Rec[l]) /\ l' = l + 1
Next == Parsed
Spec == Init /\ [][Next]_l

WhichFails(o) ==
  IF o.ev # "tree" THEN {"Returns"}
  ELSE (IF SpansValid(o) THEN {} ELSE {"SpansValid"}) \cup (IF ErrorHasDiag(o) THEN {} ELSE {"ErrorHasDiag"})
       \cup (IF Lossless(o) THEN {} ELSE {"Lossless"}) \cup (IF TreeIffLexClean(o) THEN {} ELSE {"TreeIffLexClean"})

Accepted ==
  LET d == TLCGet("stats").diameter IN
    IF d - 1 = Len(Rec) THEN TRUE
    ELSE PrintT(<<"REJECT", ToJson([line |-> d, clauses |-> WhichFails(Rec[d])])>>) /\ FALSE
=============================================================================
