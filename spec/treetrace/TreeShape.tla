----------------------------- MODULE TreeShape -----------------------------
(***************************************************************************)
(* Requirement spec (R) for C02 and the syntax half of C12, stated over an   *)
(* observation of one parse:                                                *)
(*   len      byte length of the text;  ascii / bounds: character boundaries *)
(*   have_tree, root_ok (root is a source-file node), leaf_eq (concatenated  *)
(*   leaf texts equal the input, computed by the harness on the real tree)   *)
(*   rows     the tree in preorder: [d depth, t 1 for a token, s, e byte     *)
(*            range, x 1 for an ERROR node/token]                            *)
(*   diags    diagnostics [s, e]                                             *)
(***************************************************************************)
EXTENDS Naturals, Integers, Sequences, FiniteSets

SeqToSet(q) == {q[i] : i \in 1..Len(q)}
OnBoundary(o, x) == IF o.ascii THEN x <= o.len ELSE x \in SeqToSet(o.bounds)

(* C12: every diagnostic has start <= end <= len, both ends on character boundaries *)
SpansValid(o) == \A i \in 1..Len(o.diags) :
                   LET d == o.diags[i] IN d.s <= d.e /\ d.e <= o.len /\ OnBoundary(o, d.s) /\ OnBoundary(o, d.e)
(* C12: a tree with an error node/token is accompanied by >= 1 diagnostic *)
ErrorHasDiag(o) == (o.have_tree /\ \E i \in 1..Len(o.rows) : o.rows[i].x = 1) => Len(o.diags) >= 1

(* C02 *)
Toks(o) == SelectSeq(o.rows, LAMBDA r : r.t = 1)
Tiling(o) == LET ts == Toks(o) IN
               /\ (Len(ts) = 0 => o.len = 0)
               /\ (Len(ts) > 0 => ts[1].s = 0 /\ ts[Len(ts)].e = o.len)
               /\ \A i \in 1..(Len(ts) - 1) : ts[i].e = ts[i + 1].s
               /\ \A i \in 1..Len(ts) : ts[i].s <= ts[i].e
SubtreeEnd(o, i) ==   \* index of the first row after the subtree of row i
  LET later == { j \in (i + 1)..Len(o.rows) : o.rows[j].d <= o.rows[i].d } IN
    IF later = {} THEN Len(o.rows) + 1 ELSE CHOOSE j \in later : \A k \in later : j <= k
Kids(o, i) == { j \in (i + 1)..(SubtreeEnd(o, i) - 1) : o.rows[j].d = o.rows[i].d + 1 }
NodeSpansChildren(o) ==
  \A i \in 1..Len(o.rows) : o.rows[i].t = 0 =>
    LET ks == Kids(o, i) IN
      IF ks = {} THEN o.rows[i].s = o.rows[i].e
      ELSE LET first == CHOOSE j \in ks : \A k \in ks : j <= k
               last  == CHOOSE j \in ks : \A k \in ks : k <= j
           IN /\ o.rows[i].s = o.rows[first].s /\ o.rows[i].e = o.rows[last].e
              /\ \A j \in ks : j # last =>
                   LET nxt == CHOOSE k \in ks : k > j /\ \A m \in ks : m > j => k <= m
                   IN o.rows[j].e = o.rows[nxt].s
RootOK(o) == /\ o.root_ok /\ Len(o.rows) >= 1 /\ o.rows[1].d = 0 /\ o.rows[1].t = 0
             /\ o.rows[1].s = 0 /\ o.rows[1].e = o.len
             /\ \A i \in 2..Len(o.rows) : o.rows[i].d >= 1
Lossless(o) == o.have_tree => (RootOK(o) /\ o.leaf_eq /\ Tiling(o) /\ NodeSpansChildren(o))

(* gating clause of C11 that holds for every input: tree iff no lexical diagnostic *)
TreeIffLexClean(o) == o.entry = "parse_check_lex" => (o.have_tree <=> ~o.lexerr)

Holds(o) == SpansValid(o) /\ ErrorHasDiag(o) /\ Lossless(o) /\ TreeIffLexClean(o)
=============================================================================
