---------------------------- MODULE GrammarTrace ----------------------------
(***************************************************************************)
(* Trace spec (T) for the grammar machine spec: for every recorded parse of  *)
(* the REAL parser (token sequence as oq3_parser::Input = [k, j], raw event  *)
(* list with forward parents and error messages - corpus, mutated and random *)
(* texts) the machine spec must compute exactly that event list from the     *)
(* same tokens, and return normally.  State l holds the tokens of record     *)
(* l - 1; a step to the next record is enabled only if the model agrees with *)
(* the record it holds.                                                      *)
(***************************************************************************)
EXTENDS Grammar, Json, IOUtils
Rec == ndJsonDeserialize(IOEnv.TRACE)
VARIABLE l
tvars == <<toks, l>>
TInit == l = 1 /\ toks = <<>>
Agree == IF l = 1 \/ l > Len(Rec) + 1 THEN TRUE ELSE (LET p == Parsed IN p.bad = "" /\ p.ev = Rec[l - 1].ev)
Step == /\ Agree /\ l <= Len(Rec) /\ toks' = Rec[l].toks /\ l' = l + 1
Last == /\ Agree /\ l = Len(Rec) + 1 /\ l' = l + 1 /\ UNCHANGED toks
TSpec == TInit /\ [][Step \/ Last]_tvars

FirstDiff == LET p == Parsed  e == Rec[l - 1].ev
                 bad == { i \in 1..Len(p.ev) : i > Len(e) \/ p.ev[i] # e[i] }
             IN [bad |-> p.bad, model_len |-> Len(p.ev), real_len |-> Len(e),
                 at |-> IF bad = {} THEN 0 ELSE CHOOSE i \in bad : \A k \in bad : i <= k,
                 model |-> IF bad = {} THEN [tag |-> "-"] ELSE p.ev[CHOOSE i \in bad : \A k \in bad : i <= k]]
Remember == IF Agree THEN TRUE ELSE TLCSet(1, FirstDiff)
Accepted ==
  LET d == TLCGet("stats").diameter IN
    IF d - 1 = Len(Rec) + 1 THEN TRUE
    ELSE PrintT(<<"REJECT", ToJson([line |-> d - 1, text |-> Rec[d - 1].text, diff |-> TLCGet(1)])>>) /\ FALSE
=============================================================================
