SPECIFICATION TSpec
CONSTRAINT Remember
POSTCONDITION Accepted
CHECK_DEADLOCK FALSE
