------------------------------ MODULE AstProj ------------------------------
(***************************************************************************)
(* The typed-AST layer of oq3_syntax (ast/generated/nodes.rs, expr_ext.rs,   *)
(* node_ext.rs) for EXPRESSIONS, as a matching relation between a node of    *)
(* the model's syntax tree (SyntaxTree.tla) and an abstract expression of    *)
(* the reference grammar (RefGrammar.tla):                                   *)
(*     MatchE(n, e)  iff  projecting n through the typed accessors gives e   *)
(* The generated accessors are `support::child` (first child that casts to   *)
(* the requested type) and `support::children`; the hand-written ones        *)
(* (BinExpr::lhs/rhs/op_details, PrefixExpr::op_kind, RangeExpr::            *)
(* start_step_stop, ...) are transcribed.  Parentheses are transparent.       *)
(* Texts in the reference grammar are TLA+ strings; `MC(str)` gives the       *)
(* model characters of a string (TokenTable!ModelChars).                     *)
(***************************************************************************)
EXTENDS Naturals, Sequences, FiniteSets
CONSTANT MC(_)

ExprKinds == {"ARRAY_EXPR", "ARRAY_LITERAL", "BIN_EXPR", "BLOCK_EXPR", "BOX_EXPR", "CALL_EXPR", "CAST_EXPRESSION", "GATE_CALL_EXPR", "G_PHASE_CALL_EXPR",
              "HARDWARE_QUBIT", "IDENTIFIER", "INDEX_EXPR", "INDEXED_IDENTIFIER", "LITERAL", "TIMING_LITERAL", "MEASURE_EXPRESSION",
              "MODIFIED_GATE_CALL_EXPR", "PAREN_EXPR", "PREFIX_EXPR", "RANGE_EXPR", "RETURN_EXPR", "DIM_EXPR"}
GateOperandKinds == {"IDENTIFIER", "INDEXED_IDENTIFIER", "HARDWARE_QUBIT"}

(* support::children::<T> / support::child::<T> *)
ChildrenIn(n, kinds) == SelectSeq(n.ch, LAMBDA c : c.k \in kinds)
Has(n, kinds) == ChildrenIn(n, kinds) # <<>>
Child(n, kinds) == ChildrenIn(n, kinds)[1]
Tokens(n) == SelectSeq(n.ch, LAMBDA c : c.k = "tok")
RECURSIVE TextOf(_), TextOfAll(_, _)
TextOf(n) == IF n.k = "tok" THEN n.txt ELSE TextOfAll(n.ch, 1)
TextOfAll(ch, i) == IF i > Len(ch) THEN <<>> ELSE TextOf(ch[i]) \o TextOfAll(ch, i + 1)

(* BinExpr::op_details: the first token child that is a binary operator *)
BinOpOf == [t \in {"PIPE2", "AMP2", "EQ2", "NEQ", "LTEQ", "GTEQ", "L_ANGLE", "R_ANGLE", "PLUS", "STAR", "MINUS", "SLASH", "PERCENT", "SHL", "SHR", "CARET",
                   "PIPE", "AMP", "EQ", "PLUSEQ", "STAREQ", "MINUSEQ", "SLASHEQ", "PERCENTEQ", "SHLEQ", "SHREQ", "CARETEQ", "PIPEEQ", "AMPEQ",
                   "DOUBLE_PLUS", "DOUBLE_STAR"} |->
  CASE t = "PIPE2" -> "||" [] t = "AMP2" -> "&&" [] t = "EQ2" -> "==" [] t = "NEQ" -> "!=" [] t = "LTEQ" -> "<=" [] t = "GTEQ" -> ">=" [] t = "L_ANGLE" -> "<"
    [] t = "R_ANGLE" -> ">" [] t = "PLUS" -> "+" [] t = "STAR" -> "*" [] t = "MINUS" -> "-" [] t = "SLASH" -> "/" [] t = "PERCENT" -> "%" [] t = "SHL" -> "<<"
    [] t = "SHR" -> ">>" [] t = "CARET" -> "^" [] t = "PIPE" -> "|" [] t = "AMP" -> "&" [] t = "EQ" -> "=" [] t = "PLUSEQ" -> "+=" [] t = "STAREQ" -> "*="
    [] t = "MINUSEQ" -> "-=" [] t = "SLASHEQ" -> "/=" [] t = "PERCENTEQ" -> "%=" [] t = "SHLEQ" -> "<<=" [] t = "SHREQ" -> ">>=" [] t = "CARETEQ" -> "^="
    [] t = "PIPEEQ" -> "|=" [] t = "AMPEQ" -> "&=" [] t = "DOUBLE_PLUS" -> "++" [] t = "DOUBLE_STAR" -> "**"]
OpTokens(n) == SelectSeq(Tokens(n), LAMBDA c : c.t \in DOMAIN BinOpOf)
UnOpOf(t) == CASE t = "BANG" -> "!" [] t = "TILDE" -> "~" [] t = "MINUS" -> "-" [] OTHER -> "?"
TypeNameOf(t) == CASE t = "ANGLE_TY" -> "angle" [] t = "BIT_TY" -> "bit" [] t = "BOOL_TY" -> "bool" [] t = "COMPLEX_TY" -> "complex" [] t = "DURATION_TY" -> "duration"
                   [] t = "FLOAT_TY" -> "float" [] t = "INT_TY" -> "int" [] t = "STRETCH_TY" -> "stretch" [] t = "UINT_TY" -> "uint" [] t = "QUBIT_KW" -> "qubit" [] OTHER -> "NONE"

RECURSIVE MatchE(_, _), MatchEs(_, _), MatchTy(_, _), MatchIxs(_, _), Unparen(_)
(* ParenExpr is transparent: expr() of the paren *)
Unparen(n) == IF n.k = "PAREN_EXPR" /\ Has(n, ExprKinds) THEN Unparen(Child(n, ExprKinds)) ELSE n
MatchEs(ns, es) == Len(ns) = Len(es) /\ \A i \in 1..Len(es) : MatchE(ns[i], es[i])
(* the expressions of an INDEX_OPERATOR: index_kind() = EXPRESSION_LIST or SET_EXPRESSION *)
IndexExprs(io) == IF Has(io, {"EXPRESSION_LIST"}) THEN ChildrenIn(Child(io, {"EXPRESSION_LIST"}), ExprKinds) ELSE <<>>
MatchIxs(ios, ixs) == Len(ios) = Len(ixs) /\ \A i \in 1..Len(ixs) : MatchEs(IndexExprs(ios[i]), ixs[i])
MatchTy(n, ty) ==
  /\ n.k = "SCALAR_TYPE" /\ Tokens(n) # <<>> /\ TypeNameOf(Tokens(n)[1].t) = ty.b
  /\ IF ty.w.k = "none" THEN ~Has(n, {"SCALAR_TYPE"}) /\ ~Has(n, {"DESIGNATOR"})
     ELSE IF ty.w.k = "ty" THEN Has(n, {"SCALAR_TYPE"}) /\ MatchTy(Child(n, {"SCALAR_TYPE"}), ty.w)
     ELSE ~Has(n, {"SCALAR_TYPE"}) /\ Has(n, {"DESIGNATOR"}) /\ Has(Child(n, {"DESIGNATOR"}), ExprKinds)
          /\ MatchE(Child(Child(n, {"DESIGNATOR"}), ExprKinds), ty.w)
MatchE(n0, e) ==
  LET n == Unparen(n0) IN
  CASE e.k = "id" -> n.k = "IDENTIFIER" /\ TextOf(n) = MC(e.n)
    [] e.k = "hwq" -> n.k = "HARDWARE_QUBIT" /\ TextOf(n) = MC(e.n)
    [] e.k = "lit" -> n.k = "LITERAL" /\ TextOf(n) = MC(e.t)
    [] e.k = "tlit" -> n.k = "TIMING_LITERAL" /\ Has(n, {"LITERAL"}) /\ TextOf(Child(n, {"LITERAL"})) = MC(e.t)
                       /\ Has(n, {"IDENTIFIER"}) /\ TextOf(Child(n, {"IDENTIFIER"})) = MC(e.u)
    [] e.k = "bin" -> n.k = "BIN_EXPR" /\ OpTokens(n) # <<>> /\ BinOpOf[OpTokens(n)[1].t] = e.op
                      /\ Len(ChildrenIn(n, ExprKinds)) >= 2 /\ MatchE(ChildrenIn(n, ExprKinds)[1], e.l) /\ MatchE(ChildrenIn(n, ExprKinds)[2], e.r)
    [] e.k = "un" -> n.k = "PREFIX_EXPR" /\ n.ch # <<>> /\ n.ch[1].k = "tok" /\ UnOpOf(n.ch[1].t) = e.op
                     /\ Has(n, ExprKinds) /\ MatchE(Child(n, ExprKinds), e.e)
    [] e.k = "call" -> n.k = "CALL_EXPR" /\ Has(n, {"IDENTIFIER"}) /\ TextOf(Child(n, {"IDENTIFIER"})) = MC(e.f)
                       /\ Has(n, {"ARG_LIST"}) /\ Has(Child(n, {"ARG_LIST"}), {"EXPRESSION_LIST"})
                       /\ MatchEs(ChildrenIn(Child(Child(n, {"ARG_LIST"}), {"EXPRESSION_LIST"}), ExprKinds), e.args)
    [] e.k = "index" ->
         IF "multi" \in DOMAIN e
           THEN n.k = "INDEXED_IDENTIFIER" /\ TextOf(Child(n, {"IDENTIFIER"})) = MC(e.n) /\ MatchIxs(ChildrenIn(n, {"INDEX_OPERATOR"}), e.ix)
           ELSE \/ (n.k = "INDEXED_IDENTIFIER" /\ TextOf(Child(n, {"IDENTIFIER"})) = MC(e.n) /\ MatchIxs(ChildrenIn(n, {"INDEX_OPERATOR"}), <<e.ix>>))
                \/ (n.k = "INDEX_EXPR" /\ Has(n, ExprKinds) /\ Unparen(Child(n, ExprKinds)).k = "IDENTIFIER" /\ TextOf(Unparen(Child(n, ExprKinds))) = MC(e.n)
                    /\ MatchIxs(ChildrenIn(n, {"INDEX_OPERATOR"}), <<e.ix>>))
    [] e.k = "indexexpr" -> n.k = "INDEX_EXPR" /\ Has(n, ExprKinds) /\ MatchE(Child(n, ExprKinds), e.base)
                            /\ Len(ChildrenIn(n, {"INDEX_OPERATOR"})) >= 1 /\ MatchEs(IndexExprs(ChildrenIn(n, {"INDEX_OPERATOR"})[1]), e.ix)
    [] e.k = "cast" -> n.k = "CAST_EXPRESSION" /\ Has(n, {"SCALAR_TYPE"}) /\ MatchTy(Child(n, {"SCALAR_TYPE"}), e.ty)
                       /\ Has(n, ExprKinds) /\ MatchE(Child(n, ExprKinds), e.e)
    [] e.k = "range" -> LET xs == ChildrenIn(n, ExprKinds) IN
                        n.k = "RANGE_EXPR" /\ IF e.s.k = "none" THEN Len(xs) = 2 /\ MatchE(xs[1], e.a) /\ MatchE(xs[2], e.b)
                                              ELSE Len(xs) = 3 /\ MatchE(xs[1], e.a) /\ MatchE(xs[2], e.s) /\ MatchE(xs[3], e.b)
    [] e.k = "measure" -> n.k = "MEASURE_EXPRESSION" /\ Has(n, GateOperandKinds) /\ MatchE(Child(n, GateOperandKinds), e.q)
    [] OTHER -> FALSE
=============================================================================
