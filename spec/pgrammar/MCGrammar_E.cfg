SPECIFICATION Spec
CONSTANTS
  Alpha = {"IDENT", "INT_NUMBER", "PLUS", "STAR", "EQ", "L_PAREN", "R_PAREN", "SEMICOLON", "MINUS", "L_BRACK", "R_BRACK", "COMMA"}
  MaxLen = 2
  Emit = FALSE
INVARIANTS C01_Model Export
CHECK_DEADLOCK FALSE
