#!/bin/sh
# usage: run.sh <cfg> <module> [workers]
exec java -Xmx12g -XX:+UseParallelGC -Xss1g -DTLA-Library=/verif/spec/events -cp /opt/veriftools/tla/tla2tools.jar:/opt/veriftools/tla/CommunityModules-deps.jar tlc2.TLC -workers ${3:-8} -metadir /tmp/tlc_meta_g$$ -cleanup -noGenerateSpecTE -config $1 $2
