------------------------------ MODULE Grammar ------------------------------
(***************************************************************************)
(* Machine spec (M) of the OpenQASM 3 grammar of oq3_parser:                 *)
(*   src/grammar.rs, grammar/items.rs, grammar/expressions.rs,               *)
(*   grammar/expressions/atom.rs, grammar/params.rs                          *)
(* on top of the Parser / Marker API of src/parser.rs.                       *)
(*                                                                         *)
(* The parser is a deterministic recursive-descent / Pratt parser whose only *)
(* state is the position in the token sequence and the list of events, so    *)
(* it is transcribed as FUNCTIONS on a state record                          *)
(*     st = [pos, ev, bad]                                                   *)
(* one operator per Rust function, same names, same order of API calls.      *)
(*   pos  ordinal of the current token (0-based, like Parser::pos)           *)
(*   ev   the event list; an event is [tag, kind, fwd, n] as in Events.tla   *)
(*        (for an error event `kind` holds the message)                      *)
(*   bad  "" or the reason the real parser would not return:                 *)
(*        "panic: .." (failed assert! / bump of a token that is not there /  *)
(*        unreachable!()) or "stuck: .." (a loop iteration that neither      *)
(*        consumed a token nor left the loop - the parser is deterministic   *)
(*        in pos, so the real loop would then run for ever)                  *)
(* The input is the state variable `toks`: a sequence of [k, j] (SyntaxKind  *)
(* name; joint with the next token), i.e. oq3_parser::Input.                 *)
(* A marker is the index of its Start event; a completed marker is           *)
(* [pos, kind].  `None` is the completed marker with pos 0.                  *)
(***************************************************************************)
EXTENDS Naturals, Integers, Sequences, FiniteSets, TLC, EventProc        \* EventProc: spec/events (via -DTLA-Library)

VARIABLE toks

Kind(i) == IF i + 1 <= Len(toks) THEN toks[i + 1].k ELSE "EOF"          \* Input::kind
Joint(i) == i + 1 <= Len(toks) /\ toks[i + 1].j                        \* Input::is_joint

Tomb == [tag |-> "start", kind |-> "T", fwd |-> 0, n |-> 0]
Fin == [tag |-> "finish", kind |-> "-", fwd |-> 0, n |-> 0]
None == [pos |-> 0, kind |-> "-"]
CM(m, k) == [pos |-> m, kind |-> k]
St0 == [pos |-> 0, ev |-> <<>>, bad |-> ""]
Bad(st) == st.bad # ""
Fail(st, why) == IF Bad(st) THEN st ELSE [st EXCEPT !.bad = why]
Require(st, cond, why) == IF cond THEN st ELSE Fail(st, "panic: " \o why)

(***************************************************************************)
(* parser.rs                                                                 *)
(***************************************************************************)
Composite2 == [ k \in {"MINUSEQ", "THIN_ARROW", "COLON2", "NEQ", "DOT2", "STAREQ", "SLASHEQ", "AMP2", "AMPEQ", "PERCENTEQ", "CARETEQ", "PLUSEQ",
                       "DOUBLE_PLUS", "DOUBLE_STAR", "SHL", "LTEQ", "EQ2", "FAT_ARROW", "GTEQ", "SHR", "PIPEEQ", "PIPE2"} |->
  CASE k = "MINUSEQ" -> <<"MINUS", "EQ">> [] k = "THIN_ARROW" -> <<"MINUS", "R_ANGLE">> [] k = "COLON2" -> <<"COLON", "COLON">>
    [] k = "NEQ" -> <<"BANG", "EQ">> [] k = "DOT2" -> <<"DOT", "DOT">> [] k = "STAREQ" -> <<"STAR", "EQ">> [] k = "SLASHEQ" -> <<"SLASH", "EQ">>
    [] k = "AMP2" -> <<"AMP", "AMP">> [] k = "AMPEQ" -> <<"AMP", "EQ">> [] k = "PERCENTEQ" -> <<"PERCENT", "EQ">> [] k = "CARETEQ" -> <<"CARET", "EQ">>
    [] k = "PLUSEQ" -> <<"PLUS", "EQ">> [] k = "DOUBLE_PLUS" -> <<"PLUS", "PLUS">> [] k = "DOUBLE_STAR" -> <<"STAR", "STAR">> [] k = "SHL" -> <<"L_ANGLE", "L_ANGLE">>
    [] k = "LTEQ" -> <<"L_ANGLE", "EQ">> [] k = "EQ2" -> <<"EQ", "EQ">> [] k = "FAT_ARROW" -> <<"EQ", "R_ANGLE">> [] k = "GTEQ" -> <<"R_ANGLE", "EQ">>
    [] k = "SHR" -> <<"R_ANGLE", "R_ANGLE">> [] k = "PIPEEQ" -> <<"PIPE", "EQ">> [] k = "PIPE2" -> <<"PIPE", "PIPE">> ]
Composite3 == [ k \in {"DOT3", "DOT2EQ", "SHLEQ", "SHREQ"} |->
  CASE k = "DOT3" -> <<"DOT", "DOT", "DOT">> [] k = "DOT2EQ" -> <<"DOT", "DOT", "EQ">> [] k = "SHLEQ" -> <<"L_ANGLE", "L_ANGLE", "EQ">>
    [] k = "SHREQ" -> <<"R_ANGLE", "R_ANGLE", "EQ">> ]

Nth(st, n) == Kind(st.pos + n)
Cur(st) == Kind(st.pos)
NthAt(st, n, kind) ==
  IF kind \in DOMAIN Composite2 THEN
       LET c == Composite2[kind] IN Kind(st.pos + n) = c[1] /\ Kind(st.pos + n + 1) = c[2] /\ Joint(st.pos + n)
  ELSE IF kind \in DOMAIN Composite3 THEN
       LET c == Composite3[kind] IN Kind(st.pos + n) = c[1] /\ Kind(st.pos + n + 1) = c[2] /\ Kind(st.pos + n + 2) = c[3]
                                   /\ Joint(st.pos + n) /\ Joint(st.pos + n + 1)
  ELSE Kind(st.pos + n) = kind
At(st, kind) == NthAt(st, 0, kind)
NRawOf(kind) == IF kind \in DOMAIN Composite2 THEN 2 ELSE IF kind \in DOMAIN Composite3 THEN 3 ELSE 1

Push(st, e) == [st EXCEPT !.ev = Append(@, e)]
DoBump(st, kind, n) == [Push(st, [tag |-> "token", kind |-> kind, fwd |-> 0, n |-> n]) EXCEPT !.pos = st.pos + n]
Eat(st, kind) == IF At(st, kind) THEN [st |-> DoBump(st, kind, NRawOf(kind)), ok |-> TRUE] ELSE [st |-> st, ok |-> FALSE]
Bump(st, kind) == IF At(st, kind) THEN DoBump(st, kind, NRawOf(kind)) ELSE Fail(st, "panic: bump " \o kind)     \* assert!(self.eat(kind))
BumpAny(st) == IF Cur(st) = "EOF" THEN st ELSE DoBump(st, Cur(st), 1)
Err(st, msg) == Push(st, [tag |-> "error", kind |-> msg, fwd |-> 0, n |-> 0])
Expect(st, kind) == IF At(st, kind) THEN Eat(st, kind) ELSE [st |-> Err(st, "expected " \o kind), ok |-> FALSE]

M(st) == Len(st.ev) + 1                                   \* the marker p.start() is about to return
St(st) == Push(st, Tomb)                                  \* Parser::start
Complete(st, m, kind) == Push([st EXCEPT !.ev[m].kind = kind], Fin)
Abandon(st, m) == IF m = Len(st.ev)
                    THEN Require([st EXCEPT !.ev = SubSeq(@, 1, m - 1)], st.ev[m].kind = "T" /\ st.ev[m].fwd = 0, "abandon: unreachable")
                    ELSE st
Precede(st, cm) == Push([st EXCEPT !.ev[cm].fwd = (Len(st.ev) + 1) - cm], Tomb)     \* the new marker is M(st)
ExtendTo(st, cm, m) == [st EXCEPT !.ev[m].fwd = cm - m]

ErrRecover(st, msg, recovery) ==
  IF Cur(st) \in {"L_CURLY", "R_CURLY"} THEN Err(st, msg)
  ELSE IF Cur(st) \in recovery THEN Err(st, msg)
  ELSE LET m == M(st) IN Complete(BumpAny(Err(St(st), msg)), m, "ERROR")
ErrAndBump(st, msg) == ErrRecover(st, msg, {})

(***************************************************************************)
(* token sets and kind predicates                                            *)
(***************************************************************************)
ScalarTypes == {"ANGLE_TY", "BIT_TY", "BOOL_TY", "COMPLEX_TY", "DURATION_TY", "FLOAT_TY", "INT_TY", "STRETCH_TY", "UINT_TY"}
IsScalarType(k) == k \in ScalarTypes
IsClassicalType(k) == k \in ScalarTypes \cup {"ARRAY_KW"}
IsQuantumType(k) == k \in {"QUBIT_KW", "HARDWARE_QUBIT"}
IsType(k) == IsClassicalType(k) \/ IsQuantumType(k)
IsCregOrQreg(k) == k \in {"QREG_KW", "CREG_KW"}
TypeCanHaveDesignator == {"ANGLE_TY", "BIT_TY", "FLOAT_TY", "INT_TY", "UINT_TY", "BOX_KW", "DELAY_KW", "QUBIT_KW"}

LITERAL_FIRST == {"BIT_STRING", "BYTE", "CHAR", "FLOAT_NUMBER", "INT_NUMBER", "STRING", "TRUE_KW", "FALSE_KW"}
PATH_FIRST == {"IDENT", "HARDWAREIDENT", "COLON", "L_ANGLE"}
ATOM_EXPR_FIRST == LITERAL_FIRST \cup PATH_FIRST \cup {"L_PAREN", "L_CURLY", "L_BRACK", "PIPE", "BOX_KW", "CONST_KW", "FOR_KW", "IF_KW", "LET_KW",
                     "RETURN_KW", "WHILE_KW", "MEASURE_KW", "INV_KW", "CTRL_KW", "NEGCTRL_KW", "POW_KW", "GPHASE_KW"}
LHS_FIRST == ATOM_EXPR_FIRST \cup {"AMP", "STAR", "BANG", "TILDE", "DOT", "MINUS", "UNDERSCORE"}
EXPR_FIRST == LHS_FIRST
EXPR_RECOVERY_SET == {"R_PAREN", "R_BRACK"}
ITEM_RECOVERY_SET == {"GATE_KW", "DEF_KW", "DEFCAL_KW", "DEFCALGRAMMAR_KW", "INCLUDE_KW", "CAL_KW", "RESET_KW", "BARRIER_KW", "CONST_KW", "LET_KW",
                      "O_P_E_N_Q_A_S_M_KW", "SEMICOLON"}
PATTERN_FIRST == LITERAL_FIRST \cup PATH_FIRST \cup {"BOX_KW", "CONST_KW", "L_PAREN", "L_BRACK", "AMP", "UNDERSCORE", "MINUS", "TILDE", "DOT"}
TYPE_FIRST == PATH_FIRST \cup {"L_PAREN", "L_BRACK", "L_ANGLE", "BANG", "STAR", "AMP", "UNDERSCORE", "EXTERN_KW"}
PARAM_FIRST == PATTERN_FIRST \cup TYPE_FIRST
TIMING_LITERAL_FIRST == {"INT_NUMBER", "FLOAT_NUMBER"}

(***************************************************************************)
(* expressions.rs: current_op                                                *)
(***************************************************************************)
Op(bp, op, right) == [bp |-> bp, op |-> op, right |-> right]
NOT_AN_OP == Op(0, "DOT3", FALSE)
CurrentOp(st) ==
  LET c == Cur(st) IN
  CASE c = "PIPE" -> (IF At(st, "PIPE2") THEN Op(3, "PIPE2", FALSE) ELSE IF At(st, "PIPEEQ") THEN Op(1, "PIPEEQ", TRUE) ELSE Op(5, "PIPE", FALSE))
    [] c = "R_ANGLE" -> (IF At(st, "SHREQ") THEN Op(1, "SHREQ", TRUE) ELSE IF At(st, "SHR") THEN Op(10, "SHR", FALSE)
                         ELSE IF At(st, "GTEQ") THEN Op(9, "GTEQ", FALSE) ELSE Op(9, "R_ANGLE", FALSE))
    [] c = "EQ" -> (IF At(st, "FAT_ARROW") THEN NOT_AN_OP ELSE IF At(st, "EQ2") THEN Op(8, "EQ2", FALSE) ELSE Op(15, "EQ", TRUE))
    [] c = "L_ANGLE" -> (IF At(st, "LTEQ") THEN Op(9, "LTEQ", FALSE) ELSE IF At(st, "SHLEQ") THEN Op(1, "SHLEQ", TRUE)
                         ELSE IF At(st, "SHL") THEN Op(10, "SHL", FALSE) ELSE Op(9, "L_ANGLE", FALSE))
    [] c = "PLUS" -> (IF At(st, "PLUSEQ") THEN Op(1, "PLUSEQ", TRUE) ELSE IF At(st, "DOUBLE_PLUS") THEN Op(2, "DOUBLE_PLUS", FALSE) ELSE Op(11, "PLUS", FALSE))
    [] c = "STAR" -> (IF At(st, "DOUBLE_STAR") THEN Op(14, "DOUBLE_STAR", TRUE) ELSE IF At(st, "STAREQ") THEN Op(1, "STAREQ", TRUE) ELSE Op(12, "STAR", FALSE))
    [] c = "CARET" -> (IF At(st, "CARETEQ") THEN Op(1, "CARETEQ", TRUE) ELSE Op(6, "CARET", FALSE))
    [] c = "PERCENT" -> (IF At(st, "PERCENTEQ") THEN Op(1, "PERCENTEQ", TRUE) ELSE Op(12, "PERCENT", FALSE))
    [] c = "AMP" -> (IF At(st, "AMPEQ") THEN Op(1, "AMPEQ", TRUE) ELSE IF At(st, "AMP2") THEN Op(4, "AMP2", FALSE) ELSE Op(7, "AMP", FALSE))
    [] c = "SLASH" -> (IF At(st, "SLASHEQ") THEN Op(1, "SLASHEQ", TRUE) ELSE Op(12, "SLASH", FALSE))
    [] c = "DOT" -> (IF At(st, "DOT2EQ") THEN Op(2, "DOT2EQ", FALSE) ELSE IF At(st, "DOT2") THEN Op(2, "DOT2", FALSE) ELSE NOT_AN_OP)
    [] c = "BANG" -> (IF At(st, "NEQ") THEN Op(8, "NEQ", FALSE) ELSE NOT_AN_OP)
    [] c = "MINUS" -> (IF At(st, "MINUSEQ") THEN Op(1, "MINUSEQ", TRUE) ELSE Op(11, "MINUS", FALSE))
    [] OTHER -> NOT_AN_OP

(***************************************************************************)
(* The grammar functions.  R(st, cm, blk) is the result of a function that   *)
(* returns Option<(CompletedMarker, BlockLike)>; B(st, ok) of one returning   *)
(* bool.  Every loop is a recursive operator named after its function.       *)
(***************************************************************************)
R(st, cm, blk) == [st |-> st, cm |-> cm, blk |-> blk]
B(st, ok) == [st |-> st, ok |-> ok]

RECURSIVE SourceFileContents(_, _), Item(_, _), OptItem(_, _), Stmt(_), ExprBlockStatements(_), BlockExpr(_), BlockOrStatement(_),
          IfStmt(_, _), ExprBp(_, _, _, _), BpLoop(_, _, _, _), Lhs(_, _), AtomExpr(_), PostfixExpr(_, _, _, _), CallExpr(_, _), CallArgList(_),
          DelimLoop(_), IndexExpr(_, _), IndexedIdentifier(_, _), IndexedIdentifierLoop(_), IndexOperator(_), SetExpression(_), TypeSpec(_), ArrayTypeSpec(_, _), DimLoop(_),
          NonArrayTypeSpec(_), ComplexTypeSpec(_), Designator(_), CastExpr(_), GphaseCallExpr(_), ModifiedGateCallExpr(_), ModLoop(_), GateCallExpr(_),
          TupleExpr(_), TupleLoop(_, _, _), ArrayExpr(_), ArrayLoop(_, _, _), ReturnExpr(_), BoxExpr(_), ParamList(_, _), PLoop(_, _, _),
          ExprOrRangeExpr(_), RangeExpr(_), ArgGateCallQubit(_, _), MeasureExpression(_), ClassicalDecl(_, _), SwitchCaseStmt(_, _), CaseLoop(_),
          QOrCRegParam(_), ParamTyped(_, _)

Expr(st) == ExprBp(st, 0, FALSE, 1)                                         \* expressions::expr

(* ---- atom.rs ---- *)
Identifier(st) == LET m == M(st) IN R(Complete(Expect(St(st), "IDENT").st, m, "IDENTIFIER"), CM(m, "IDENTIFIER"), FALSE)
HardwareQubit(st) == LET m == M(st) IN R(Complete(Bump(St(st), "HARDWAREIDENT"), m, "HARDWARE_QUBIT"), CM(m, "HARDWARE_QUBIT"), FALSE)

Literal(st) ==
  IF Cur(st) \notin LITERAL_FIRST THEN R(st, None, FALSE)
  ELSE LET s0 == IF At(st, "STRING") THEN Err(st, "Unexpected string literal") ELSE st
           m == M(s0)
           s1 == St(s0)
       IN IF Nth(s1, 1) = "IDENT" THEN
            LET s2 == IF Cur(s1) \notin TIMING_LITERAL_FIRST THEN Err(s1, "Timing and imaginary literals must begin with an integer or float literal") ELSE s1
                m2 == M(s2)
                s3 == Complete(BumpAny(St(s2)), m2, "LITERAL")
                s4 == Identifier(s3).st
            IN R(Complete(s4, m, "TIMING_LITERAL"), CM(m, "TIMING_LITERAL"), FALSE)
          ELSE R(Complete(BumpAny(s1), m, "LITERAL"), CM(m, "LITERAL"), FALSE)

CastExpr(st) ==
  LET m == M(st)
      s1 == TypeSpec(St(st))
      s2 == Expect(s1, "L_PAREN").st
      s3 == Expr(s2).st
      s4 == Expect(s3, "R_PAREN").st
  IN R(Complete(s4, m, "CAST_EXPRESSION"), CM(m, "CAST_EXPRESSION"), FALSE)

GphaseCallExpr(st) ==
  LET m == M(st)
      s1 == Bump(St(Require(st, At(st, "GPHASE_KW"), "gphase_call_expr")), "GPHASE_KW")
      s2 == Expr(s1).st
  IN R(Complete(s2, m, "G_PHASE_CALL_EXPR"), CM(m, "G_PHASE_CALL_EXPR"), FALSE)

ParenArg(st) ==          \* `( expr )` wrapped in PAREN_EXPR, as in the pow / ctrl / negctrl modifiers
  LET m2 == M(st)
      s1 == Expect(St(st), "L_PAREN").st
      s2 == Expr(s1).st
      s3 == Expect(s2, "R_PAREN").st
  IN Complete(s3, m2, "PAREN_EXPR")

ModLoop(st) ==
  LET c == Cur(st)  m1 == M(st) IN
  IF Bad(st) THEN st
  ELSE IF c = "INV_KW" THEN
    LET s1 == Bump(St(st), "INV_KW")
        s2 == IF At(s1, "AT") THEN Bump(s1, "AT")
              ELSE IF At(s1, "L_PAREN") THEN Err(s1, "Modifier `inv` accepts no parameter. Expecting `@`") ELSE Err(s1, "Expecting `@`")
    IN ModLoop(Complete(s2, m1, "INV_MODIFIER"))
  ELSE IF c = "POW_KW" THEN
    LET s1 == Bump(St(st), "POW_KW")
        s2 == IF At(s1, "L_PAREN") THEN ParenArg(s1) ELSE Err(s1, "expecting argument to pow gate modifier")
        s3 == Expect(s2, "AT").st
    IN ModLoop(Complete(s3, m1, "POW_MODIFIER"))
  ELSE IF c \in {"CTRL_KW", "NEGCTRL_KW"} THEN
    LET s1 == Bump(St(st), c)
        s2 == IF At(s1, "L_PAREN") THEN ParenArg(s1) ELSE s1
        s3 == Expect(s2, "AT").st
    IN ModLoop(Complete(s3, m1, IF c = "CTRL_KW" THEN "CTRL_MODIFIER" ELSE "NEG_CTRL_MODIFIER"))
  ELSE st

ModifiedGateCallExpr(st) ==
  LET m == M(st)
      s1 == ModLoop(St(st))
      s2 == IF At(s1, "GPHASE_KW") THEN GphaseCallExpr(s1).st ELSE GateCallExpr(s1).st
  IN R(Complete(s2, m, "MODIFIED_GATE_CALL_EXPR"), CM(m, "MODIFIED_GATE_CALL_EXPR"), FALSE)

GateCallExpr(st) ==
  LET m == M(st)
      s1 == Identifier(St(st)).st
      s2 == IF At(s1, "L_PAREN") THEN CallArgList(s1) ELSE s1
      s3 == ParamList(s2, "GateCallQubits")
  IN R(Complete(s3, m, "GATE_CALL_EXPR"), CM(m, "GATE_CALL_EXPR"), FALSE)

MeasureExpression(st) ==
  LET m == M(st)
      s1 == Bump(St(st), "MEASURE_KW")
      s2 == IF Cur(s1) \in {"IDENT", "HARDWAREIDENT"} THEN ArgGateCallQubit(St(s1), M(s1)).st ELSE Err(s1, "expecting qubit(s) to measure")
  IN R(Complete(s2, m, "MEASURE_EXPRESSION"), CM(m, "MEASURE_EXPRESSION"), FALSE)

(* tuple_expr: the loop carries saw_comma / saw_expr *)
TupleLoop(st, sawComma, sawExpr) ==
  IF Bad(st) \/ At(st, "EOF") \/ At(st, "R_PAREN") THEN [st |-> st, sawComma |-> sawComma, sawExpr |-> sawExpr]
  ELSE LET r == Expr(st) IN
       IF r.cm = None THEN [st |-> r.st, sawComma |-> sawComma, sawExpr |-> TRUE]
       ELSE IF ~At(r.st, "R_PAREN") THEN
              LET s2 == Expect(r.st, "COMMA").st IN
              IF s2.pos = st.pos THEN [st |-> Fail(s2, "stuck: tuple_expr"), sawComma |-> TRUE, sawExpr |-> TRUE] ELSE TupleLoop(s2, TRUE, TRUE)
            ELSE TupleLoop(r.st, sawComma, TRUE)
TupleExpr(st) ==
  LET m == M(st)
      s1 == Expect(St(Require(st, At(st, "L_PAREN"), "tuple_expr")), "L_PAREN").st
      e == Eat(s1, "COMMA")
      s2 == IF e.ok THEN Err(e.st, "expected expression, found comma instead") ELSE s1
      l == TupleLoop(s2, e.ok, FALSE)
      s3 == Expect(l.st, "R_PAREN").st
      k == IF l.sawExpr /\ ~l.sawComma THEN "PAREN_EXPR" ELSE "TUPLE_EXPR"
  IN R(Complete(s3, m, k), CM(m, k), FALSE)

ArrayLoop(st, n, hasSemi) ==
  IF Bad(st) \/ At(st, "EOF") \/ At(st, "R_BRACK") THEN st
  ELSE LET r == Expr(st) IN
       IF r.cm = None THEN r.st
       ELSE LET e == IF n + 1 = 1 THEN Eat(r.st, "SEMICOLON") ELSE B(r.st, FALSE) IN
            IF e.ok THEN ArrayLoop(e.st, n + 1, TRUE)
            ELSE IF hasSemi THEN r.st
            ELSE IF At(r.st, "R_BRACK") THEN ArrayLoop(r.st, n + 1, hasSemi)
            ELSE LET x == Expect(r.st, "COMMA") IN IF ~x.ok THEN x.st ELSE ArrayLoop(x.st, n + 1, hasSemi)
ArrayExpr(st) ==
  LET m == M(st)
      s1 == Bump(St(Require(st, At(st, "L_BRACK"), "array_expr")), "L_BRACK")
      s2 == ArrayLoop(s1, 0, FALSE)
      s3 == Expect(s2, "R_BRACK").st
  IN R(Complete(s3, m, "ARRAY_EXPR"), CM(m, "ARRAY_EXPR"), FALSE)

TryBlockExpr(st) == IF ~At(st, "L_CURLY") THEN Err(st, "expected a block") ELSE BlockExpr(st).st
BlockExpr(st) ==
  LET m == M(st)
      s1 == Bump(St(Require(st, At(st, "L_CURLY"), "block_expr")), "L_CURLY")
      s2 == ExprBlockStatements(s1)
      s3 == Expect(s2, "R_CURLY").st
  IN R(Complete(s3, m, "BLOCK_EXPR"), CM(m, "BLOCK_EXPR"), TRUE)

ReturnExpr(st) ==
  LET m == M(st)
      s1 == BumpAny(St(Require(st, At(st, "RETURN_KW"), "return_expr")))
      s2 == IF Cur(s1) \in EXPR_FIRST THEN Expr(s1).st ELSE s1
  IN R(Complete(s2, m, "RETURN_EXPR"), CM(m, "RETURN_EXPR"), FALSE)
BoxExpr(st) ==
  LET m == M(st)
      s1 == Bump(St(Require(st, At(st, "BOX_KW"), "box_expr")), "BOX_KW")
      s2 == IF Cur(s1) \in EXPR_FIRST THEN Expr(s1).st ELSE s1
  IN R(Complete(s2, m, "BOX_EXPR"), CM(m, "BOX_EXPR"), FALSE)

AtomExpr(st) ==
  LET l == Literal(st) IN
  IF l.cm # None THEN l
  ELSE LET c == Cur(st)  la == Nth(st, 1) IN
    IF IsClassicalType(c) THEN CastExpr(st)
    ELSE CASE c = "HARDWAREIDENT" -> HardwareQubit(st)
           [] c = "L_PAREN" -> TupleExpr(st)
           [] c = "L_BRACK" -> ArrayExpr(st)
           [] c = "BOX_KW" -> BoxExpr(st)
           [] c = "MEASURE_KW" -> MeasureExpression(st)
           [] c = "RETURN_KW" -> ReturnExpr(st)
           [] c = "L_CURLY" -> BlockExpr(st)
           [] c \in {"INV_KW", "POW_KW", "CTRL_KW", "NEGCTRL_KW"} -> ModifiedGateCallExpr(st)
           [] c = "GPHASE_KW" -> GphaseCallExpr(st)
           [] c = "IDENT" -> (IF la \in {"IDENT", "HARDWAREIDENT"} THEN GateCallExpr(st) ELSE Identifier(st))
           [] OTHER -> R(ErrAndBump(st, "atom_expr: expected expression"), None, FALSE)

(* ---- expressions.rs ---- *)
CallArgList(st) ==
  LET m == M(st)
      s1 == St(Require(st, At(st, "L_PAREN"), "call_arg_list"))
      m1 == M(s1)
      s2 == Bump(St(s1), "L_PAREN")
      s3 == DelimLoop(s2)
      s4 == Expect(s3, "R_PAREN").st
  IN Complete(Complete(s4, m1, "EXPRESSION_LIST"), m, "ARG_LIST")
(* delimited(p, '(', ')', false, ',', EXPR_FIRST, |p| expr(p).is_some()) *)
DelimLoop(st) ==
  IF Bad(st) \/ At(st, "R_PAREN") \/ At(st, "EOF") THEN st
  ELSE LET r == Expr(st) IN
       IF r.cm = None THEN r.st
       ELSE IF ~At(r.st, "COMMA") THEN (IF Cur(r.st) \in EXPR_FIRST THEN DelimLoop(Err(r.st, "expected COMMA")) ELSE r.st)
            ELSE DelimLoop(Bump(r.st, "COMMA"))

CallExpr(st, lhs) ==
  LET m == M(st)
      s1 == CallArgList(Precede(Require(st, At(st, "L_PAREN"), "call_expr"), lhs.pos))
  IN IF Cur(s1) \in {"IDENT", "HARDWAREIDENT"}
       THEN R(Complete(ParamList(s1, "GateCallQubits"), m, "GATE_CALL_EXPR"), CM(m, "GATE_CALL_EXPR"), FALSE)
       ELSE R(Complete(s1, m, "CALL_EXPR"), CM(m, "CALL_EXPR"), FALSE)

IndexOperator(st) ==
  LET m == M(st)
      s1 == Expect(St(Require(st, At(st, "L_BRACK"), "index_operator")), "L_BRACK").st
      s2 == IF At(s1, "L_CURLY") THEN SetExpression(s1) ELSE ParamList(s1, "ExpressionList")
      s3 == Expect(s2, "R_BRACK").st
  IN Complete(s3, m, "INDEX_OPERATOR")
SetExpression(st) ==
  LET m == M(st)
      s1 == Bump(St(Require(st, At(st, "L_CURLY"), "set_expression")), "L_CURLY")
      s2 == ParamList(s1, "ExpressionList")
      s3 == Expect(s2, "R_CURLY").st
  IN Complete(s3, m, "SET_EXPRESSION")
IndexExpr(st, lhs) ==
  LET m == M(st) IN R(Complete(IndexOperator(Precede(Require(st, At(st, "L_BRACK"), "index_expr"), lhs.pos)), m, "INDEX_EXPR"), CM(m, "INDEX_EXPR"), FALSE)
IndexedIdentifierLoop(st) == IF ~Bad(st) /\ At(st, "L_BRACK") /\ ~At(st, "EOF") THEN IndexedIdentifierLoop(IndexOperator(st)) ELSE st
IndexedIdentifier(st, lhs) ==
  LET m == M(st) IN R(Complete(IndexedIdentifierLoop(Precede(Require(st, At(st, "L_BRACK"), "indexed_identifier"), lhs.pos)), m, "INDEXED_IDENTIFIER"),
                      CM(m, "INDEXED_IDENTIFIER"), FALSE)

PostfixExpr(st, lhs, blk, allow) ==
  LET c == Cur(st) IN
  IF Bad(st) THEN R(st, lhs, blk)
  ELSE IF c = "L_PAREN" /\ allow THEN LET r == CallExpr(st, lhs) IN PostfixExpr(r.st, r.cm, FALSE, TRUE)
  ELSE IF c = "L_BRACK" /\ allow THEN
    LET r == IF lhs.kind = "IDENTIFIER" THEN IndexedIdentifier(st, lhs)
             ELSE IF lhs.kind \in {"LITERAL", "TIMING_LITERAL", "HARDWARE_QUBIT"} THEN IndexExpr(Err(st, "Indexing into literal is not allowed."), lhs)
             ELSE IndexExpr(st, lhs)
    IN PostfixExpr(r.st, r.cm, FALSE, TRUE)
  ELSE R(st, lhs, blk)

Lhs(st, prefer) ==
  IF Cur(st) \in {"TILDE", "BANG", "MINUS"} THEN
    LET m == M(st)
        s1 == BumpAny(St(st))
        s2 == ExprBp(s1, 0, prefer, 13).st
    IN R(Complete(s2, m, "PREFIX_EXPR"), CM(m, "PREFIX_EXPR"), FALSE)
  ELSE LET a == AtomExpr(st) IN
       IF a.cm = None THEN a ELSE PostfixExpr(a.st, a.cm, a.blk, ~(prefer /\ a.blk))

BpLoop(st, lhs, prefer, bp) ==
  LET op == CurrentOp(st) IN
  IF Bad(st) \/ op.bp < bp THEN R(st, lhs, FALSE)
  ELSE LET m == M(st)
           s1 == Bump(Precede(st, lhs.pos), op.op)
           s2 == ExprBp(s1, 0, FALSE, IF op.right THEN op.bp ELSE op.bp + 1).st
       IN IF op.op = "EQ" THEN
            LET s3 == IF ~prefer THEN Err(s2, "Assignment statement found where expression expected") ELSE s2 IN
            IF lhs.kind \in {"IDENTIFIER", "INDEXED_IDENTIFIER"} THEN
                 LET s4 == IF prefer THEN Expect(s3, "SEMICOLON").st ELSE s3
                 IN BpLoop(Complete(s4, m, "ASSIGNMENT_STMT"), CM(m, "ASSIGNMENT_STMT"), prefer, bp)
            ELSE BpLoop(Complete(Err(s3, "Illegal LHS in assignment"), m, "BIN_EXPR"), CM(m, "BIN_EXPR"), prefer, bp)
          ELSE BpLoop(Complete(s2, m, "BIN_EXPR"), CM(m, "BIN_EXPR"), prefer, bp)

(* expr_bp(p, m, r, bp): m0 = 0 stands for m = None *)
ExprBp(st, m0, prefer, bp) ==
  LET m == IF m0 = 0 THEN M(st) ELSE m0
      s1 == IF m0 = 0 THEN St(st) ELSE st
  IN IF Bad(st) THEN R(st, None, FALSE)
     ELSE IF Cur(s1) \notin EXPR_FIRST /\ ~(IsClassicalType(Cur(s1)) /\ Nth(s1, 1) \in {"L_PAREN", "L_BRACK"})
       THEN R(Abandon(ErrRecover(s1, "expr_bp: expected expression", EXPR_RECOVERY_SET), m), None, FALSE)
     ELSE LET l == Lhs(s1, prefer) IN
          IF l.cm = None THEN R(Abandon(l.st, m), None, FALSE)
          ELSE LET s2 == ExtendTo(l.st, l.cm.pos, m) IN
               IF prefer /\ l.blk THEN R(s2, l.cm, TRUE) ELSE BpLoop(s2, l.cm, prefer, bp)

RangeTail(st) ==         \* after the first bound: `: e (: e)?`
  LET s1 == Bump(st, "COLON")
      s2 == ExprBp(s1, 0, FALSE, 1).st
  IN IF At(s2, "COLON") THEN ExprBp(Bump(s2, "COLON"), 0, FALSE, 1).st ELSE s2
RangeExpr(st) ==
  LET m == M(st)
      s1 == Bump(St(Require(st, At(st, "L_BRACK"), "range_expr")), "L_BRACK")
      s2 == ExprBp(s1, 0, FALSE, 1).st
      s3 == IF At(s2, "COLON") THEN RangeTail(s2) ELSE Err(s2, "Expecting colon in range expression.")
      s4 == Expect(s3, "R_BRACK").st
  IN Complete(s4, m, "RANGE_EXPR")
ExprOrRangeExpr(st) ==
  LET m == M(st)
      r == ExprBp(St(st), 0, FALSE, 1)
  IN IF At(r.st, "COLON") THEN Complete(RangeTail(r.st), m, "RANGE_EXPR") ELSE Abandon(r.st, m)

TypeName(st) == IF ~IsType(Cur(st)) THEN Err(st, "Expected type name.") ELSE Bump(st, Cur(st))
TypeSpec(st) == IF At(st, "ARRAY_KW") THEN ArrayTypeSpec(st, FALSE) ELSE NonArrayTypeSpec(st)
ParamTypeSpec(st) == IF At(st, "ARRAY_KW") \/ At(st, "MUTABLE_KW") \/ At(st, "READONLY_KW") THEN ArrayTypeSpec(st, TRUE) ELSE NonArrayTypeSpec(st)
DimLoop(st) ==
  LET s1 == Expr(st).st IN
  IF Bad(s1) THEN s1
  ELSE IF At(s1, "R_BRACK") THEN BumpAny(s1)
  ELSE LET x == Expect(s1, "COMMA") IN IF ~x.ok THEN x.st ELSE DimLoop(x.st)
ArrayTypeSpec(st, ref) ==
  LET m == M(st)
      s1 == St(st)
      s2 == IF ref THEN (IF At(s1, "ARRAY_KW") THEN Err(s1, "Expecting modifier `mutable` or `immutable`")
                         ELSE Eat(Eat(s1, "MUTABLE_KW").st, "READONLY_KW").st)
            ELSE Require(s1, At(s1, "ARRAY_KW"), "array_type_spec")
      s3 == Expect(BumpAny(s2), "L_BRACK").st
      s4 == IF Cur(s3) \notin {"INT_TY", "UINT_TY", "FLOAT_TY", "COMPLEX_TY", "ANGLE_TY", "BOOL_TY", "DURATION_TY"} THEN Err(s3, "Illegal base type for array.") ELSE s3
      s5 == Expect(TypeSpec(s4), "COMMA").st
      s6 == IF At(s5, "DIM_KW") THEN
              LET a == IF ~ref THEN Err(s5, "Unexpected dim expression outside of subroutine declaration") ELSE s5
                  dm == M(a)
                  b == BumpAny(St(a))
                  e == Eat(b, "EQ")
                  d == IF e.ok THEN Expr(e.st).st ELSE Err(b, "Expecting '=' after #dim")
                  f == IF At(d, "R_BRACK") THEN BumpAny(d) ELSE Err(d, "Expecting ']' after #dim specification")
              IN Complete(f, dm, "DIM_EXPR")
            ELSE DimLoop(s5)
  IN Complete(s6, m, "ARRAY_TYPE")
NonArrayTypeSpec(st) ==
  IF At(st, "COMPLEX_TY") THEN ComplexTypeSpec(st)
  ELSE LET m == M(st)
           tn == Cur(st)
           s1 == TypeName(St(st))
           s2 == IF At(s1, "L_BRACK") THEN Designator(IF tn \notin TypeCanHaveDesignator THEN Err(s1, "Type cannot take designator") ELSE s1) ELSE s1
       IN Complete(s2, m, "SCALAR_TYPE")
ComplexTypeSpec(st) ==
  LET m == M(st)
      s1 == BumpAny(St(Require(st, At(st, "COMPLEX_TY"), "complex_type_spec")))
      s2 == IF At(s1, "L_BRACK") THEN
              LET a == Bump(s1, "L_BRACK")
                  b == IF ~At(a, "FLOAT_TY") THEN Err(a, "Expecting `float` in complex designator`") ELSE a
              IN Expect(NonArrayTypeSpec(b), "R_BRACK").st
            ELSE s1
  IN Complete(s2, m, "SCALAR_TYPE")
QubitTypeSpec(st) ==
  LET m == M(st)
      s1 == TypeName(St(Require(st, At(st, "QUBIT_KW"), "qubit_type_spec")))
      s2 == IF At(s1, "L_BRACK") THEN (LET d == Designator(s1) IN IF At(d, "HARDWAREIDENT") THEN Err(d, "Found designator in hardware qubit declaration.") ELSE d) ELSE s1
  IN Complete(s2, m, "QUBIT_TYPE")
Designator(st) ==
  LET m == M(st)
      s1 == Bump(St(Require(st, At(st, "L_BRACK"), "designator")), "L_BRACK")
      s2 == IF Cur(s1) \in {"FLOAT_NUMBER", "BYTE", "CHAR", "STRING", "BIT_STRING"} /\ Nth(s1, 1) = "R_BRACK" THEN Err(s1, "Literal type designator must be an integer.") ELSE s1
      s3 == Expect(Expr(s2).st, "R_BRACK").st
  IN Complete(s3, m, "DESIGNATOR")
VarName(st) ==
  LET m == M(st)
      s1 == St(st)
      s2 == IF At(s1, "IDENT") THEN BumpAny(s1) ELSE Err(s1, "Expecting parameter name. Found " \o Cur(s1))
  IN Complete(s2, m, "NAME")

QOrCRegParam(st) ==
  LET m == M(st)
      s1 == BumpAny(St(st))
  IN IF ~At(s1, "IDENT") THEN Abandon(Err(s1, "Expected qubit register name"), m)
     ELSE LET s2 == BumpAny(s1) IN
          IF At(s2, "L_BRACK") /\ ~At(s2, "EOF") THEN Complete(IndexOperator(s2), m, "OLD_TYPED_PARAM")
          ELSE Abandon(Err(s2, "Expected index operator"), m)
QOrCRegDeclaration(st, m) == Complete(Expect(QOrCRegParam(st), "SEMICOLON").st, m, "OLD_STYLE_DECLARATION_STATEMENT")

LetStmt(st, m) ==
  LET s1 == Bump(st, "LET_KW")
      s2 == Expect(Expect(s1, "IDENT").st, "EQ").st
      s3 == Expect(Expr(s2).st, "SEMICOLON").st
  IN Complete(s3, m, "LET_STMT")

ExprBlockStatements(st) ==
  IF Bad(st) \/ At(st, "EOF") \/ At(st, "R_CURLY") THEN st
  ELSE LET s2 == Stmt(st) IN
       IF s2.pos = st.pos /\ ~Bad(s2) THEN Fail(s2, "stuck: expr_block_statements") ELSE ExprBlockStatements(s2)

Stmt(st) ==
  LET e == Eat(st, "SEMICOLON") IN
  IF e.ok THEN e.st
  ELSE IF At(st, "LET_KW") THEN LetStmt(St(st), M(st))
  ELSE LET m == M(st)
           r == OptItem(St(st), m)
           s2 == r.st
       IN IF r.ok THEN s2
          ELSE IF At(s2, "PRAGMA") THEN Complete(BumpAny(s2), m, "PRAGMA_STATEMENT")
          ELSE IF At(s2, "ANNOTATION") THEN Complete(BumpAny(s2), m, "ANNOTATION_STATEMENT")
          ELSE IF At(s2, "QREG_KW") \/ At(s2, "CREG_KW") THEN QOrCRegDeclaration(s2, m)
          ELSE IF At(s2, "VERSION_STRING") THEN
                 LET x == Eat(BumpAny(s2), "SEMICOLON") IN
                 Complete(IF x.ok THEN x.st ELSE Err(x.st, "Expecting semicolon terminating version declaration statement"), m, "VERSION_STRING")
          ELSE IF ~(IsClassicalType(Cur(s2)) /\ Nth(s2, 1) \in {"L_PAREN", "L_BRACK"}) /\ Cur(s2) \notin EXPR_FIRST
                 THEN Abandon(ErrAndBump(s2, "stmt: expected expression, type declaration, or let statement"), m)
          ELSE LET x == ExprBp(s2, m, TRUE, 1) IN
               IF x.cm = None \/ x.cm.kind = "ASSIGNMENT_STMT" THEN x.st
               ELSE IF ~At(x.st, "R_CURLY") THEN
                      LET m2 == M(x.st)
                          s3 == Precede(x.st, x.cm.pos)
                          y == Eat(s3, "SEMICOLON")
                          s4 == IF x.blk \/ y.ok THEN y.st ELSE Err(s3, "Expecting semicolon terminating statement")
                      IN Complete(s4, m2, "EXPR_STMT")
                    ELSE x.st

(* ---- grammar.rs ---- *)
OptReturnSignature(st) ==
  IF At(st, "THIN_ARROW") THEN
    LET m == M(st)
        s1 == Bump(St(st), "THIN_ARROW")
        s2 == IF ~IsScalarType(Cur(s1)) THEN Err(s1, "Expected scalar return type after ->") ELSE s1
    IN IF IsType(Cur(s2)) THEN B(Complete(TypeSpec(s2), m, "RETURN_SIGNATURE"), TRUE) ELSE B(Abandon(s2, m), FALSE)
  ELSE B(st, FALSE)
NameR(st, recovery) ==
  IF At(st, "HARDWAREIDENT") THEN Complete(Bump(St(st), "HARDWAREIDENT"), M(st), "HARDWARE_QUBIT")
  ELSE IF At(st, "IDENT") THEN Complete(Bump(St(st), "IDENT"), M(st), "NAME")
  ELSE ErrRecover(st, "expected a name", recovery)
Name(st) == NameR(st, {})

(* ---- params.rs ---- *)
AtListEnd(st, fl) ==
  IF fl = "DefCalQubits" THEN At(st, "L_CURLY") \/ At(st, "THIN_ARROW")
  ELSE At(st, CASE fl = "ExpressionList" -> "R_BRACK" [] fl = "CaseValues" -> "L_CURLY"
                [] fl \in {"GateParams", "DefParams", "DefCalParams", "TypeListFlavor"} -> "R_PAREN"
                [] fl = "GateQubits" -> "L_CURLY" [] fl = "GateCallQubits" -> "SEMICOLON" [] fl = "ArrayLiteral" -> "R_CURLY")
ListKind(fl) == CASE fl \in {"GateQubits", "GateParams"} -> "PARAM_LIST" [] fl \in {"DefCalQubits", "GateCallQubits"} -> "QUBIT_LIST"
                  [] fl \in {"ExpressionList", "CaseValues"} -> "EXPRESSION_LIST" [] fl \in {"DefParams", "DefCalParams"} -> "TYPED_PARAM_LIST"
                  [] fl = "TypeListFlavor" -> "TYPE_LIST" [] fl = "ArrayLiteral" -> "ARRAY_LITERAL"
ParamUntyped(st, m) == IF ~At(st, "IDENT") THEN B(Abandon(Err(st, "Expected parameter name"), m), FALSE) ELSE B(Complete(Bump(st, "IDENT"), m, "PARAM"), TRUE)
ParamUntypedOrHardwareQubit(st, m) ==
  IF At(st, "IDENT") THEN B(Complete(Bump(st, "IDENT"), m, "PARAM"), TRUE)
  ELSE IF At(st, "HARDWAREIDENT") THEN B(HardwareQubit(Abandon(st, m)).st, TRUE)
  ELSE B(Abandon(Err(st, "Expected parameter name"), m), FALSE)
ParamTyped(st, m) ==
  IF At(st, "CREG_KW") \/ At(st, "QREG_KW") THEN B(QOrCRegParam(Abandon(st, m)), TRUE)
  ELSE B(Complete(VarName(ParamTypeSpec(st)), m, "TYPED_PARAM"), TRUE)
ArgGateCallQubit(st, m) ==
  IF At(st, "HARDWAREIDENT") THEN B(Complete(Bump(st, "HARDWAREIDENT"), m, "HARDWARE_QUBIT"), TRUE)
  ELSE IF ~At(st, "IDENT") THEN B(Abandon(Err(st, "Expected name in qubit argument"), m), FALSE)
  ELSE LET s1 == Complete(Bump(st, "IDENT"), m, "IDENTIFIER") IN
       IF At(s1, "L_BRACK") THEN B(IndexedIdentifier(s1, CM(m, "IDENTIFIER")).st, TRUE) ELSE B(s1, TRUE)

PLoop(st, fl, n) ==
  IF Bad(st) \/ At(st, "EOF") \/ AtListEnd(st, fl) THEN [st |-> st, n |-> n]
  ELSE LET m == M(st)
           s1 == St(st)
           inner == At(s1, "L_CURLY")
           c == Cur(s1)
       IN IF ~(fl = "DefParams" /\ (At(s1, "MUTABLE_KW") \/ At(s1, "READONLY_KW")))
              /\ ~(IsType(c) \/ c \in PARAM_FIRST \/ inner \/ IsCregOrQreg(c))
            THEN [st |-> Abandon(Err(s1, "expected value parameter"), m), n |-> n]
          ELSE LET f == CASE fl \in {"ExpressionList", "CaseValues"} -> B(ExprOrRangeExpr(Abandon(s1, m)), TRUE)
                          [] fl = "GateCallQubits" -> ArgGateCallQubit(s1, m)
                          [] fl = "TypeListFlavor" -> B(Complete(TypeSpec(s1), m, "SCALAR_TYPE"), TRUE)
                          [] fl \in {"DefCalParams", "DefParams"} -> ParamTyped(s1, m)
                          [] fl \in {"GateParams", "GateQubits"} -> ParamUntyped(s1, m)
                          [] fl = "DefCalQubits" -> ParamUntypedOrHardwareQubit(s1, m)
                          [] fl = "ArrayLiteral" -> (IF inner THEN B(ParamList(Abandon(s1, m), "ArrayLiteral"), TRUE) ELSE B(Expr(Abandon(s1, m)).st, TRUE))
                   s2 == f.st
               IN IF ~f.ok \/ s2.pos = st.pos THEN [st |-> s2, n |-> n]
                  ELSE IF AtListEnd(s2, fl) THEN [st |-> s2, n |-> n + 1]
                  ELSE IF ~At(s2, "COMMA") THEN (IF Cur(s2) \in PARAM_FIRST THEN PLoop(Err(s2, "Expected `,`"), fl, n + 1) ELSE [st |-> s2, n |-> n + 1])
                  ELSE PLoop(Bump(s2, "COMMA"), fl, n + 1)
ParamList(st, fl) ==
  LET lm == M(st)
      s1 == St(st)
      needParens == fl \in {"GateParams", "DefParams", "DefCalParams", "TypeListFlavor"}
      s2 == IF needParens THEN Expect(s1, "L_PAREN").st ELSE IF fl = "ArrayLiteral" THEN Expect(s1, "L_CURLY").st ELSE s1
      l == PLoop(s2, fl, 0)
      s3 == IF l.n < 1 /\ fl \in {"GateParams", "ExpressionList", "CaseValues"} THEN Err(l.st, "expected one or more parameters") ELSE l.st
      s4 == IF needParens THEN Expect(s3, "R_PAREN").st ELSE IF fl = "ArrayLiteral" THEN Expect(s3, "R_CURLY").st ELSE s3
  IN Complete(s4, lm, ListKind(fl))

(* ---- items.rs ---- *)
BlockOrStatement(st) == IF At(st, "L_CURLY") THEN BlockExpr(st).st ELSE Stmt(st)
CondHead(st, kw) == Expect(Expr(Expect(Bump(Require(st, At(st, kw), kw), kw), "L_PAREN").st).st, "R_PAREN").st     \* kw ( expr )
IfStmt(st, m) ==
  LET s1 == BlockOrStatement(CondHead(st, "IF_KW"))
      s2 == IF At(s1, "ELSE_KW") THEN
              LET a == Bump(s1, "ELSE_KW") IN IF At(a, "IF_KW") THEN IfStmt(St(a), M(a)) ELSE BlockOrStatement(a)
            ELSE s1
  IN Complete(s2, m, "IF_STMT")
WhileStmt(st, m) == Complete(BlockOrStatement(CondHead(st, "WHILE_KW")), m, "WHILE_STMT")
ForStmt(st, m) ==
  LET s1 == Expect(Name(TypeSpec(Bump(Require(st, At(st, "FOR_KW"), "for_stmt"), "FOR_KW"))), "IN_KW").st
      m1 == M(s1)
      s2 == St(s1)
      s3 == IF At(s2, "L_CURLY") THEN SetExpression(s2) ELSE IF At(s2, "L_BRACK") THEN RangeExpr(s2)
            ELSE IF At(s2, "IDENT") /\ Nth(s2, 1) \in {"IDENT", "HARDWAREIDENT"} THEN Identifier(s2).st      \* `for T i in name stmt`
            ELSE Expr(s2).st
      s4 == BlockOrStatement(Complete(s3, m1, "FOR_ITERABLE"))
  IN Complete(s4, m, "FOR_STMT")
CaseLoop(st) ==
  IF ~Bad(st) /\ At(st, "CASE_KW") THEN
    LET m1 == M(st)
        s1 == TryBlockExpr(ParamList(Bump(St(st), "CASE_KW"), "CaseValues"))
    IN CaseLoop(Complete(s1, m1, "CASE_EXPR"))
  ELSE st
SwitchCaseStmt(st, m) ==
  LET s1 == Expect(CondHead(st, "SWITCH_KW"), "L_CURLY").st
      s2 == IF ~At(s1, "CASE_KW") /\ ~At(s1, "DEFAULT_KW") THEN Err(s1, "expecting `case` or `default` keyword") ELSE s1
      s3 == CaseLoop(s2)
      e == Eat(s3, "DEFAULT_KW")
      s4 == IF e.ok THEN TryBlockExpr(e.st) ELSE s3
  IN Complete(Expect(s4, "R_CURLY").st, m, "SWITCH_CASE_STMT")
QubitDeclarationStmt(st, m) ==
  LET s1 == QubitTypeSpec(Require(st, At(st, "QUBIT_KW"), "qubit_declaration_stmt"))
      s2 == IF At(s1, "HARDWAREIDENT") THEN HardwareQubit(s1).st ELSE VarName(s1)
  IN Complete(Expect(s2, "SEMICOLON").st, m, "QUANTUM_DECLARATION_STATEMENT")
ResetStmt(st, m) ==
  LET s1 == Bump(st, "RESET_KW") IN
  IF Cur(s1) \in {"IDENT", "HARDWAREIDENT"} THEN Complete(Expect(ArgGateCallQubit(St(s1), M(s1)).st, "SEMICOLON").st, m, "RESET")
  ELSE Abandon(Err(s1, "expecting name of qubit or register to reset"), m)
KwSemi(st, m, kw, kind) == Complete(Expect(Bump(st, kw), "SEMICOLON").st, m, kind)          \* break / continue / end
GateDefinition(st, m) ==
  LET s1 == NameR(Bump(st, "GATE_KW"), ITEM_RECOVERY_SET)
      s2 == IF At(s1, "L_PAREN") THEN ParamList(s1, "GateParams") ELSE s1
  IN Complete(TryBlockExpr(ParamList(s2, "GateQubits")), m, "GATE")
Defcal(st, m) ==
  LET s1 == NameR(Bump(st, "DEFCAL_KW"), ITEM_RECOVERY_SET)
      s2 == IF At(s1, "L_PAREN") THEN ParamList(s1, "DefCalParams") ELSE s1
  IN Complete(TryBlockExpr(OptReturnSignature(ParamList(s2, "DefCalQubits")).st), m, "DEF_CAL")
ClassicalDecl(st, m) ==
  LET s1 == Eat(st, "CONST_KW").st
      mexpr == M(s1)
      s2 == St(s1)
      haveArr == At(s2, "ARRAY_KW")
      s3 == TypeSpec(s2)
  IN IF Cur(s3) = "L_PAREN" THEN
       LET s4 == Complete(Expect(Expr(Expect(s3, "L_PAREN").st).st, "R_PAREN").st, mexpr, "CAST_EXPRESSION") IN
       IF At(s4, "SEMICOLON") THEN Complete(Expect(s4, "SEMICOLON").st, m, "EXPR_STMT") ELSE Abandon(s4, m)
     ELSE LET s4 == VarName(Abandon(s3, mexpr))
              e == Eat(s4, "SEMICOLON")
          IN IF e.ok THEN Complete(e.st, m, "CLASSICAL_DECLARATION_STATEMENT")
             ELSE LET x == Expect(s4, "EQ") IN
                  IF ~x.ok THEN Abandon(x.st, m)
                  ELSE LET s5 == IF haveArr /\ At(x.st, "L_CURLY") THEN ParamList(x.st, "ArrayLiteral") ELSE Expr(x.st).st
                       IN Complete(Expect(s5, "SEMICOLON").st, m, "CLASSICAL_DECLARATION_STATEMENT")
IoDeclarationStmt(st, m) ==
  LET s1 == BumpAny(st)
      s2 == IF ~IsClassicalType(Cur(s1)) THEN Err(s1, "Quantum type found in input/output declaration.") ELSE s1
  IN Complete(Expect(VarName(TypeSpec(s2)), "SEMICOLON").st, m, "I_O_DECLARATION_STATEMENT")
DefStmt(st, m) ==
  LET s1 == NameR(BumpAny(Require(st, At(st, "DEF_KW"), "def_stmt")), ITEM_RECOVERY_SET)
      s2 == IF At(s1, "L_PAREN") THEN ParamList(s1, "DefParams") ELSE Err(s1, "expected parameters list in subroutine signature")
  IN Complete(TryBlockExpr(OptReturnSignature(s2).st), m, "DEF")
ExternStmt(st, m) ==
  LET s1 == NameR(BumpAny(Require(st, At(st, "EXTERN_KW"), "extern_stmt")), ITEM_RECOVERY_SET)
      s2 == IF At(s1, "L_PAREN") THEN ParamList(s1, "TypeListFlavor") ELSE s1
      r == OptReturnSignature(s2)
      s3 == IF ~r.ok THEN Err(r.st, "expected return signature in extern statement") ELSE r.st
  IN Complete(Expect(s3, "SEMICOLON").st, m, "EXTERN_STMT")
FilepathR(st, recovery) ==
  IF At(st, "STRING") THEN Complete(Bump(St(st), "STRING"), M(st), "FILE_PATH") ELSE ErrRecover(st, "expected a path to a file", recovery)
PathStmt(st, m, kw, kind) == Complete(Expect(FilepathR(Bump(st, kw), ITEM_RECOVERY_SET), "SEMICOLON").st, m, kind)      \* defcalgrammar / include
Cal(st, m) == Complete(TryBlockExpr(Bump(st, "CAL_KW")), m, "CAL")
Version(st) ==
  LET m == M(st)
      s1 == St(st)
      x == Expect(s1, "FLOAT_NUMBER")
      s2 == IF ~x.ok /\ ~At(x.st, "SEMICOLON") THEN BumpAny(x.st) ELSE x.st
  IN Complete(Expect(s2, "SEMICOLON").st, m, "VERSION")
VersionString(st, m) == Complete(Version(Bump(st, "O_P_E_N_Q_A_S_M_KW")), m, "VERSION_STRING")
Barrier(st, m) ==
  LET s1 == Bump(st, "BARRIER_KW")
      s2 == IF ~At(s1, "SEMICOLON") THEN ParamList(s1, "GateCallQubits") ELSE s1
  IN Complete(Expect(s2, "SEMICOLON").st, m, "BARRIER")
DelayStmt(st, m) ==
  LET s1 == Bump(st, "DELAY_KW")
      s2 == IF At(s1, "L_BRACK") THEN Designator(s1) ELSE Err(s1, "expected designator `[duration]` after `delay`")
  IN Complete(Expect(ParamList(s2, "GateCallQubits"), "SEMICOLON").st, m, "DELAY_STMT")
AliasStmt(st, m) ==
  LET s1 == Expect(NameR(BumpAny(Require(st, At(st, "LET_KW"), "alias_stmt")), ITEM_RECOVERY_SET), "EQ").st
  IN Complete(Expect(Expr(s1).st, "SEMICOLON").st, m, "ALIAS_DECLARATION_STATEMENT")

OptItem(st, m) ==
  LET c == Cur(st)  la == Nth(st, 1) IN
  IF Bad(st) THEN B(st, TRUE)
  ELSE IF IsClassicalType(c) /\ la # "L_PAREN" THEN B(ClassicalDecl(st, m), TRUE)
  ELSE CASE c = "QUBIT_KW" -> B(QubitDeclarationStmt(st, m), TRUE)
         [] c = "CONST_KW" -> B(ClassicalDecl(st, m), TRUE)
         [] c = "GATE_KW" -> B(GateDefinition(st, m), TRUE)
         [] c = "BREAK_KW" -> B(KwSemi(st, m, "BREAK_KW", "BREAK_STMT"), TRUE)
         [] c = "CONTINUE_KW" -> B(KwSemi(st, m, "CONTINUE_KW", "CONTINUE_STMT"), TRUE)
         [] c = "END_KW" -> B(KwSemi(st, m, "END_KW", "END_STMT"), TRUE)
         [] c = "IF_KW" -> B(IfStmt(st, m), TRUE)
         [] c = "WHILE_KW" -> B(WhileStmt(st, m), TRUE)
         [] c = "FOR_KW" -> B(ForStmt(st, m), TRUE)
         [] c = "DEF_KW" -> B(DefStmt(st, m), TRUE)
         [] c = "DEFCAL_KW" -> B(Defcal(st, m), TRUE)
         [] c = "CAL_KW" -> B(Cal(st, m), TRUE)
         [] c = "DEFCALGRAMMAR_KW" -> B(PathStmt(st, m, "DEFCALGRAMMAR_KW", "DEF_CAL_GRAMMAR"), TRUE)
         [] c = "EXTERN_KW" -> B(ExternStmt(st, m), TRUE)
         [] c = "RESET_KW" -> B(ResetStmt(st, m), TRUE)
         [] c = "BARRIER_KW" -> B(Barrier(st, m), TRUE)
         [] c = "O_P_E_N_Q_A_S_M_KW" -> B(VersionString(st, m), TRUE)
         [] c = "INCLUDE_KW" -> B(PathStmt(st, m, "INCLUDE_KW", "INCLUDE"), TRUE)
         [] c = "SWITCH_KW" -> B(SwitchCaseStmt(st, m), TRUE)
         [] c = "LET_KW" -> B(AliasStmt(st, m), TRUE)
         [] c = "DELAY_KW" -> B(DelayStmt(st, m), TRUE)
         [] c \in {"INPUT_KW", "OUTPUT_KW"} -> B(IoDeclarationStmt(st, m), TRUE)
         [] OTHER -> B(st, FALSE)

Item(st, stop) ==
  LET m == M(st)
      r == OptItem(St(st), m)
  IN IF r.ok THEN (IF At(r.st, "SEMICOLON") THEN ErrAndBump(r.st, "expected statement, found `;`") ELSE r.st)
     ELSE LET s2 == r.st  c == Cur(r.st) IN
          IF c = "R_CURLY" /\ ~stop THEN
            LET s3 == Abandon(s2, m)
                e == M(s3)
            IN Complete(Bump(Err(St(s3), "unmatched `}`"), "R_CURLY"), e, "ERROR")
          ELSE IF c \in {"EOF", "R_CURLY"} THEN Abandon(s2, m)
          ELSE ExprBlockStatements(Abandon(s2, m))
SourceFileContents(st, stop) ==
  IF Bad(st) \/ At(st, "EOF") \/ (At(st, "R_CURLY") /\ stop) THEN st
  ELSE LET s2 == Item(st, stop) IN
       IF s2.pos = st.pos /\ ~Bad(s2) THEN Fail(s2, "stuck: source_file_contents") ELSE SourceFileContents(s2, stop)
(* entry::top::source_file *)
SourceFile == LET m == M(St0) IN Complete(SourceFileContents(St(St0), FALSE), m, "SOURCE_FILE")

(***************************************************************************)
(* Properties of M (per input): C01's clauses on the model                   *)
(***************************************************************************)
Parsed == SourceFile
ReturnsNormally(p) == p.bad = ""                                        \* no panic, no stuck loop
ConsumesAll(p) == p.pos = Len(toks)                                     \* source_file stops only at EOF
(* every marker was completed or abandoned and the steps event::process derives from the events form one balanced tree *)
NStarts(p) == Cardinality({ i \in 1..Len(p.ev) : p.ev[i].tag = "start" /\ p.ev[i].kind # "T" })
NFinishes(p) == Cardinality({ i \in 1..Len(p.ev) : p.ev[i].tag = "finish" })
MarkersDischarged(p) == NStarts(p) = NFinishes(p) /\ SingleRootSteps(Process(p.ev, 1, {}))
(* linear work: the number of events is bounded by a constant factor of the tokens *)
LinearWork(p) == Len(p.ev) <= 64 * (Len(toks) + 1)
=============================================================================
