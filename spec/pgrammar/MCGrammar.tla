----------------------------- MODULE MCGrammar -----------------------------
(***************************************************************************)
(* Model-checking instance of the grammar machine spec: the state is a token *)
(* sequence that grows one token at a time over a finite alphabet (kind,     *)
(* joint flag), so TLC visits EVERY token sequence up to MaxLen.  In every   *)
(* state the C01 clauses are evaluated on the model's parse, the event list  *)
(* is checked against the protocol requirement (balanced tree, every token   *)
(* consumed exactly once), and the state is exported as a CASE so that the   *)
(* harness can run the real parser on the same oq3_parser::Input and compare *)
(* the raw event lists (B1).                                                 *)
(***************************************************************************)
EXTENDS Grammar, Json
CONSTANTS Fams,       \* set of <<alphabet name, MaxLen>>: the families of token sequences to explore
          Emit
VARIABLE fam             \* the family the current sequence belongs to (chosen initially)
(* alphabets (token kinds); every sequence over an alphabet up to MaxLen is one state *)
A_expr == {"IDENT", "INT_NUMBER", "PLUS", "STAR", "EQ", "L_PAREN", "R_PAREN", "SEMICOLON", "MINUS", "L_BRACK", "R_BRACK", "COMMA"}
A_prec == {"IDENT", "PLUS", "STAR", "MINUS", "L_ANGLE", "SEMICOLON"}      \* long enough sequences to see precedence and associativity
A_ops  == {"IDENT", "INT_NUMBER", "PIPE", "AMP", "L_ANGLE", "R_ANGLE", "EQ", "BANG", "DOT", "CARET", "PERCENT", "SLASH", "TILDE", "PLUS", "SEMICOLON"}
A_decl == {"INT_TY", "FLOAT_TY", "COMPLEX_TY", "ARRAY_KW", "CONST_KW", "QUBIT_KW", "IDENT", "INT_NUMBER", "L_BRACK", "R_BRACK", "EQ", "SEMICOLON", "COMMA",
           "L_PAREN", "L_CURLY", "R_CURLY", "DIM_KW", "HARDWAREIDENT"}
A_ctrl == {"IF_KW", "ELSE_KW", "WHILE_KW", "FOR_KW", "IN_KW", "L_PAREN", "R_PAREN", "L_CURLY", "R_CURLY", "IDENT", "INT_TY", "SEMICOLON", "L_BRACK", "COLON",
           "R_BRACK", "INT_NUMBER"}
A_def  == {"GATE_KW", "DEF_KW", "DEFCAL_KW", "EXTERN_KW", "IDENT", "HARDWAREIDENT", "L_PAREN", "R_PAREN", "L_CURLY", "R_CURLY", "COMMA", "MINUS", "R_ANGLE",
           "INT_TY", "SEMICOLON", "QUBIT_KW", "MUTABLE_KW", "READONLY_KW", "ARRAY_KW", "CREG_KW", "QREG_KW"}
A_call == {"INV_KW", "POW_KW", "CTRL_KW", "NEGCTRL_KW", "AT", "GPHASE_KW", "IDENT", "HARDWAREIDENT", "L_PAREN", "R_PAREN", "INT_NUMBER", "SEMICOLON", "MEASURE_KW",
           "RESET_KW", "BARRIER_KW", "L_BRACK", "R_BRACK", "COMMA", "EQ"}
A_misc == {"INCLUDE_KW", "STRING", "PRAGMA", "ANNOTATION", "VERSION_STRING", "O_P_E_N_Q_A_S_M_KW", "FLOAT_NUMBER", "LET_KW", "DELAY_KW", "SWITCH_KW", "CASE_KW",
           "DEFAULT_KW", "CAL_KW", "DEFCALGRAMMAR_KW", "INPUT_KW", "OUTPUT_KW", "QREG_KW", "CREG_KW", "BREAK_KW", "CONTINUE_KW", "END_KW", "RETURN_KW", "BOX_KW",
           "IDENT", "SEMICOLON", "L_CURLY", "R_CURLY", "L_BRACK", "R_BRACK", "EQ", "INT_TY", "BIT_STRING", "TRUE_KW", "UNDERSCORE", "ERROR", "L_PAREN", "R_PAREN"}
(* every token kind the lexer can produce (91) *)
A_all == A_expr \cup A_ops \cup A_decl \cup A_ctrl \cup A_def \cup A_call \cup A_misc \cup
         {"QUESTION", "DOLLAR", "POUND", "BYTE", "CHAR", "FALSE_KW", "ANGLE_TY", "BIT_TY", "BOOL_TY", "DURATION_TY", "STRETCH_TY", "UINT_TY", "VOID_KW",
          "PRAGMA_KW", "COMMENT", "WHITESPACE"}
AlphaOf(n) == CASE n = "expr" -> A_expr [] n = "prec" -> A_prec [] n = "ops" -> A_ops [] n = "decl" -> A_decl [] n = "ctrl" -> A_ctrl [] n = "def" -> A_def
                  [] n = "call" -> A_call [] n = "misc" -> A_misc [] n = "all" -> A_all
Fams_quick == {<<"expr", 3>>, <<"prec", 5>>, <<"ops", 3>>, <<"decl", 3>>, <<"ctrl", 3>>, <<"def", 3>>, <<"call", 3>>, <<"misc", 2>>, <<"all", 2>>}
Fams_thorough == {<<"expr", 4>>, <<"prec", 5>>, <<"ops", 4>>, <<"decl", 3>>, <<"ctrl", 4>>, <<"def", 3>>, <<"call", 3>>, <<"misc", 3>>, <<"all", 2>>}
Fams_sim == {<<"expr", 16>>, <<"prec", 16>>, <<"ops", 16>>, <<"decl", 16>>, <<"ctrl", 16>>, <<"def", 16>>, <<"call", 16>>, <<"misc", 16>>, <<"all", 16>>}
Init == toks = <<>> /\ fam \in Fams
Grow == \E k \in AlphaOf(fam[1]), j \in BOOLEAN : Len(toks) < fam[2] /\ toks' = Append(toks, [k |-> k, j |-> j]) /\ fam' = fam
Next == Grow
Spec == Init /\ [][Next]_<<toks, fam>>

(* the tokens the events consume, in order, are exactly the input (losslessness at the event level) *)
RECURSIVE SumTok(_, _)
SumTok(ev, i) == IF i > Len(ev) THEN 0 ELSE (IF ev[i].tag = "token" THEN ev[i].n ELSE 0) + SumTok(ev, i + 1)
C01_Model == LET p == Parsed IN ReturnsNormally(p) /\ ConsumesAll(p) /\ MarkersDischarged(p) /\ LinearWork(p) /\ SumTok(p.ev, 1) = Len(toks)
(* in simulation only the end of each walk is exported *)
Export == (Emit /\ (fam[2] < 16 \/ Len(toks) >= 8)) => LET p == Parsed IN PrintT(<<"CASE", ToJson([fam |-> fam[1], toks |-> toks, ev |-> p.ev, bad |-> p.bad])>>)
=============================================================================
