----------------------------- MODULE MCGrammar -----------------------------
(***************************************************************************)
(* Model-checking instance of the grammar machine spec: the state is a token *)
(* sequence that grows one token at a time over a finite alphabet (kind,     *)
(* joint flag), so TLC visits EVERY token sequence up to MaxLen.  In every   *)
(* state the C01 clauses are evaluated on the model's parse, the event list  *)
(* is checked against the protocol requirement (balanced tree, every token   *)
(* consumed exactly once), and the state is exported as a CASE so that the   *)
(* harness can run the real parser on the same oq3_parser::Input and compare *)
(* the raw event lists (B1).                                                 *)
(***************************************************************************)
EXTENDS Grammar, Json
CONSTANTS Alpha,      \* set of token kinds
          MaxLen,
          Emit
Init == toks = <<>>
Grow == \E k \in Alpha, j \in BOOLEAN : Len(toks) < MaxLen /\ toks' = Append(toks, [k |-> k, j |-> j])
Next == Grow
Spec == Init /\ [][Next]_toks

(* the tokens the events consume, in order, are exactly the input (losslessness at the event level) *)
RECURSIVE SumTok(_, _)
SumTok(ev, i) == IF i > Len(ev) THEN 0 ELSE (IF ev[i].tag = "token" THEN ev[i].n ELSE 0) + SumTok(ev, i + 1)
C01_Model == LET p == Parsed IN ReturnsNormally(p) /\ ConsumesAll(p) /\ MarkersDischarged(p) /\ LinearWork(p) /\ SumTok(p.ev, 1) = Len(toks)
Export == Emit => LET p == Parsed IN PrintT(<<"CASE", ToJson([toks |-> toks, ev |-> p.ev, bad |-> p.bad])>>)
=============================================================================
