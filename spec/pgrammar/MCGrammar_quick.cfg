SPECIFICATION Spec
CONSTANTS
  Fams <- Fams_quick
  Emit = TRUE
INVARIANTS C01_Model Export
CHECK_DEADLOCK FALSE
