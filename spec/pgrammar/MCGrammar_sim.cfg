SPECIFICATION Spec
CONSTANTS
  Fams <- Fams_sim
  Emit = TRUE
INVARIANTS C01_Model Export
CHECK_DEADLOCK FALSE
