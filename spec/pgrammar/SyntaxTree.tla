----------------------------- MODULE SyntaxTree -----------------------------
(***************************************************************************)
(* The syntax tree the builder makes from the steps of event::process, and   *)
(* the validation pass of oq3_syntax (validation.rs) on it.                  *)
(*   A node is [k |-> kind, ch |-> <<children>>]; a leaf is                   *)
(*   [k |-> "tok", t |-> token kind, txt |-> characters].  Trivia is left    *)
(*   out (it carries no structure); a glued token's text is the              *)
(*   concatenation of its raw tokens.                                        *)
(* `ntoks` is the sequence of non-trivia raw tokens [kind, txt] of the text. *)
(***************************************************************************)
EXTENDS Naturals, Sequences, FiniteSets

RECURSIVE Kids(_, _, _, _), Glue(_, _, _)
Glue(ntoks, from, n) == IF n = 0 THEN <<>> ELSE ntoks[from].txt \o Glue(ntoks, from + 1, n - 1)
(* children from step i on, until the matching exit: [kids, i (after the exit), tix (next raw token)] *)
Kids(steps, i, tix, ntoks) ==
  IF i > Len(steps) THEN [kids |-> <<>>, i |-> i, tix |-> tix]
  ELSE LET x == steps[i] IN
    CASE x.s = "exit" -> [kids |-> <<>>, i |-> i + 1, tix |-> tix]
      [] x.s = "enter" ->
           LET sub == Kids(steps, i + 1, tix, ntoks)
               rest == Kids(steps, sub.i, sub.tix, ntoks)
           IN [kids |-> << [k |-> x.kind, ch |-> sub.kids] >> \o rest.kids, i |-> rest.i, tix |-> rest.tix]
      [] x.s = "token" ->
           LET rest == Kids(steps, i + 1, tix + x.n, ntoks)
           IN [kids |-> << [k |-> "tok", t |-> x.kind, txt |-> Glue(ntoks, tix, x.n)] >> \o rest.kids, i |-> rest.i, tix |-> rest.tix]
      [] OTHER -> Kids(steps, i + 1, tix, ntoks)                      \* error steps carry no structure
(* the root node (steps of a finished parse start with "enter SOURCE_FILE") *)
TreeOf(steps, ntoks) == Kids(steps, 1, 1, ntoks).kids[1]

(***************************************************************************)
(* validation.rs                                                             *)
(***************************************************************************)
RECURSIVE Nodes(_), NodesOf(_, _)
Nodes(n) == IF n.k = "tok" THEN <<>> ELSE <<n>> \o NodesOf(n.ch, 1)       \* descendants (nodes only), document order
NodesOf(ch, i) == IF i > Len(ch) THEN <<>> ELSE Nodes(ch[i]) \o NodesOf(ch, i + 1)
FirstChild(n, kind) == LET ix == { i \in 1..Len(n.ch) : n.ch[i].k = kind } IN
                         IF ix = {} THEN [k |-> "none"] ELSE n.ch[CHOOSE i \in ix : \A j \in ix : i <= j]
RECURSIVE TextOfNode(_), TextOfKids(_, _)
TextOfNode(n) == IF n.k = "tok" THEN n.txt ELSE TextOfKids(n.ch, 1)
TextOfKids(ch, i) == IF i > Len(ch) THEN <<>> ELSE TextOfNode(ch[i]) \o TextOfKids(ch, i + 1)

TimeUnits == { <<"s">>, <<"m", "s">>, <<"u", "s">>, <<"<mu>", "s">>, <<"n", "s">>, <<"d", "t">>, <<"i", "m">> }
(* validate_timing_literal: the identifier after the number must be a time unit or `im` *)
TimingLiteralErrors(root) ==
  SelectSeq(Nodes(root), LAMBDA n : n.k = "TIMING_LITERAL" /\ TextOfNode(FirstChild(n, "IDENTIFIER")) \notin TimeUnits)
(* validate_literal: string and bit string bodies go through unescape_literal; a body without a backslash and without a *)
(* bare carriage return has no escape to complain about.  Other bodies are outside this model (HasEscapes).             *)
LiteralTokens(root) == SelectSeq(Nodes(root), LAMBDA n : n.k = "LITERAL" /\ Len(n.ch) >= 1 /\ n.ch[1].k = "tok" /\ n.ch[1].t \in {"STRING", "BIT_STRING"})
HasEscapes(root) == \E i \in 1..Len(LiteralTokens(root)) : \E c \in 1..Len(LiteralTokens(root)[i].ch[1].txt) : LiteralTokens(root)[i].ch[1].txt[c] \in {"\\", "\r"}
ValidationErrors(root) == TimingLiteralErrors(root)
=============================================================================
