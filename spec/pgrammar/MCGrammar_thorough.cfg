SPECIFICATION Spec
CONSTANTS
  Fams <- Fams_thorough
  Emit = TRUE
INVARIANTS C01_Model Export
CHECK_DEADLOCK FALSE
