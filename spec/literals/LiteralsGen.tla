---------------------------- MODULE LiteralsGen ----------------------------
(* Prints every case of Literals as one CASE line (B1 for C10). *)
EXTENDS Literals
ASSUME \A c \in AllCases : PrintT(<<"CASE", ToJson(c)>>)
ASSUME \A c \in BitCases : PrintT(<<"CASE", ToJson(c)>>)
ASSUME PrintT(<<"COUNT", ToJson([int |-> Cardinality(IntCases), float |-> Cardinality(FloatCases),
                                 bits |-> Cardinality(BitCases), timing |-> Cardinality(TimingIntCases \cup TimingFloatCases),
                                 imag |-> Cardinality(ImagIntCases \cup ImagFloatCases)])>>)
VARIABLE x
Init == x = 0
Next == x' = x
Spec == Init /\ [][Next]_x
=============================================================================
