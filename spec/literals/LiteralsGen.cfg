SPECIFICATION Spec
