------------------------------ MODULE Literals ------------------------------
(***************************************************************************)
(* Requirement spec (R) for C10: literal spellings and their exact values.   *)
(* TLA+ has neither big integers nor floats, so                             *)
(*  - an integer value is its digit string in the literal's own radix,       *)
(*    lower case, no underscores, no leading zeros (Canon); the harness      *)
(*    prints the u128 it finds in the graph in that radix and compares;      *)
(*  - a float value is its canonical text (CanonText: the spelling without   *)
(*    underscores); the double nearest to it is computed by the trusted      *)
(*    oracle str::parse::<f64> (DESIGN section 9);                           *)
(*  - a bit string is its sequence of bits, the width their number.          *)
(* Digits are sequences of one-character strings.                            *)
(***************************************************************************)
EXTENDS Naturals, Sequences, SequencesExt, FiniteSets, TLC, Json

(* non-recursive definitions: bit strings are up to 256 characters long *)
Join(s) == FoldLeft(LAMBDA a, b : a \o b, "", s)
Rep(x, n) == [i \in 1..n |-> x]

Lower(c) == CASE c = "A" -> "a" [] c = "B" -> "b" [] c = "C" -> "c" [] c = "D" -> "d"
              [] c = "E" -> "e" [] c = "F" -> "f" [] OTHER -> c
NoUnderscore(ds) == SelectSeq(ds, LAMBDA c : c # "_")
(* drop leading zeros but keep the last digit *)
StripZeros(ds) == LET nz == { i \in 1..Len(ds) : ds[i] # "0" \/ i = Len(ds) }
                      first == CHOOSE i \in nz : \A j \in nz : i <= j
                  IN SubSeq(ds, first, Len(ds))
Canon(ds) == Join(StripZeros([i \in 1..Len(NoUnderscore(ds)) |-> Lower(NoUnderscore(ds)[i])]))

(* underscore placements for a digit sequence: none, after the first digit, before the last, *)
(* every third position, between all digits (single underscores between digits only)          *)
(* an underscore before every k-th digit (not before the first) *)
Every(ds, k, i0) ==
  LET n == Len(ds)
      il == [i \in 1..(2 * n - 1) |->
               IF i % 2 = 1 THEN [c |-> ds[(i + 1) \div 2], keep |-> TRUE]
               ELSE [c |-> "_", keep |-> ((i \div 2) % k = 0)]]
      kept == SelectSeq(il, LAMBDA e : e.keep)
  IN [i \in 1..Len(kept) |-> kept[i].c]
Placements(ds) ==
  {ds} \cup (IF Len(ds) >= 2 THEN { <<ds[1], "_">> \o Tail(ds),
                                    SubSeq(ds, 1, Len(ds) - 1) \o <<"_", ds[Len(ds)]>>,
                                    Every(ds, 3, 0), Every(ds, 1, 0) } ELSE {})

(***************************************************************************)
(* integer magnitudes per radix, as digit strings of that radix: 0, 1, and   *)
(* 2^k-1, 2^k, 2^k+1 around the widths 7,8,15,16,31,32,63,64,127 and 2^128-1 *)
(***************************************************************************)
D(str) == str   \* marker: a string of digits; split by the harness-independent table below
Chars(s) == s   \* strings are given directly as sequences, see MagBin etc.

Ones(n) == Rep("1", n)
Pow2(n) == <<"1">> \o Rep("0", n)
MagBin == { <<"0">>, <<"1">>, <<"0", "1">>, <<"0", "0">> } \cup
          UNION { {Ones(k), Pow2(k), Pow2(k)  \* 2^k-1, 2^k
                  , SubSeq(Pow2(k), 1, k) \o <<"1">>} : k \in {7, 8, 16, 31, 32, 63, 64, 127} }
          \cup { Ones(128) }
Fs(n) == Rep("f", n)
MagHex == { <<"0">>, <<"1">>, <<"0", "a">>, <<"e">>, <<"1", "e", "3">>, <<"b", "a", "d">>, <<"F", "f">>, <<"7", "f">>, <<"8", "0">>,
            <<"D", "E", "A", "D", "B", "E", "E", "F">>, <<"a", "B", "c", "D", "e", "F", "0", "1">>,
            Fs(4), <<"1">> \o Rep("0", 4), <<"7">> \o Fs(7), <<"8">> \o Rep("0", 7), Fs(8), <<"1">> \o Rep("0", 8),
            <<"7">> \o Fs(15), Fs(16), <<"1">> \o Rep("0", 16), <<"1">> \o Rep("0", 15) \o <<"1">>,
            <<"7">> \o Fs(31), Fs(32) }
Sevens(n) == Rep("7", n)
MagOct == { <<"0">>, <<"1">>, <<"7">>, <<"1", "7">>, <<"1", "7", "7">>, <<"4", "0", "0">>, <<"1">> \o Sevens(5),
            <<"3">> \o Sevens(10), <<"4">> \o Rep("0", 10), <<"1">> \o Sevens(21), <<"2">> \o Rep("0", 21),
            <<"3">> \o Sevens(42) }
MagDec == {
  <<"0">>,
  <<"1">>,
  <<"7">>,
  <<"1","0">>,
  <<"0","0","7">>,
  <<"1","2","7">>,
  <<"1","2","8">>,
  <<"1","2","9">>,
  <<"2","5","5">>,
  <<"2","5","6">>,
  <<"3","2","7","6","7">>,
  <<"6","5","5","3","5">>,
  <<"6","5","5","3","6">>,
  <<"2","1","4","7","4","8","3","6","4","7">>,
  <<"2","1","4","7","4","8","3","6","4","8">>,
  <<"4","2","9","4","9","6","7","2","9","5">>,
  <<"4","2","9","4","9","6","7","2","9","6">>,
  <<"4","2","9","4","9","6","7","2","9","7">>,
  <<"9","2","2","3","3","7","2","0","3","6","8","5","4","7","7","5","8","0","7">>,
  <<"9","2","2","3","3","7","2","0","3","6","8","5","4","7","7","5","8","0","8">>,
  <<"1","8","4","4","6","7","4","4","0","7","3","7","0","9","5","5","1","6","1","5">>,
  <<"1","8","4","4","6","7","4","4","0","7","3","7","0","9","5","5","1","6","1","6">>,
  <<"1","7","0","1","4","1","1","8","3","4","6","0","4","6","9","2","3","1","7","3","1","6","8","7","3","0","3","7","1","5","8","8","4","1","0","5","7","2","7">>,
  <<"1","7","0","1","4","1","1","8","3","4","6","0","4","6","9","2","3","1","7","3","1","6","8","7","3","0","3","7","1","5","8","8","4","1","0","5","7","2","8">>,
  <<"3","4","0","2","8","2","3","6","6","9","2","0","9","3","8","4","6","3","4","6","3","3","7","4","6","0","7","4","3","1","7","6","8","2","1","1","4","5","5">> }

(***************************************************************************)
(* Cases.  kind, source text of the literal, and what the graph must hold.   *)
(***************************************************************************)
Prefix(radix, upper) == CASE radix = 2 -> (IF upper THEN "0B" ELSE "0b")
                          [] radix = 8 -> (IF upper THEN "0O" ELSE "0o")
                          [] radix = 16 -> (IF upper THEN "0X" ELSE "0x")
                          [] OTHER -> ""
Mags(radix) == CASE radix = 2 -> MagBin [] radix = 8 -> MagOct [] radix = 16 -> MagHex [] OTHER -> MagDec

IntCases ==
  UNION { UNION { { [cls |-> "int", radix |-> r, neg |-> n, suffix |-> "",
                     text |-> Prefix(r, up) \o Join(sp), canon |-> Canon(m)] :
                     up \in BOOLEAN, n \in BOOLEAN, sp \in Placements(m) } : m \in Mags(r) } : r \in {2, 8, 10, 16} }

(* integers of 2^128 and more have no representation: they must be diagnosed, never stored as another number *)
MagOver == { [r |-> 10, m |-> <<"3","4","0","2","8","2","3","6","6","9","2","0","9","3","8","4","6","3","4","6","3","3","7","4","6","0","7","4","3","1","7","6","8","2","1","1","4","5","6">>],
             [r |-> 10, m |-> <<"3","4","0","2","8","2","3","6","6","9","2","0","9","3","8","4","6","3","4","6","3","3","7","4","6","0","7","4","3","1","7","6","8","2","1","1","4","5","7">>],
             [r |-> 16, m |-> <<"1">> \o Rep("0", 32)], [r |-> 16, m |-> <<"1">> \o Rep("0", 31) \o <<"1">>], [r |-> 16, m |-> <<"f">> \o Rep("0", 32)],
             [r |-> 2, m |-> Pow2(128)], [r |-> 2, m |-> SubSeq(Pow2(128), 1, 128) \o <<"1">>], [r |-> 8, m |-> <<"4">> \o Rep("0", 42)], [r |-> 8, m |-> <<"7">> \o Rep("0", 42)] }
OverflowCases == { [cls |-> "int_overflow", radix |-> o.r, neg |-> FALSE, suffix |-> "", text |-> Prefix(o.r, FALSE) \o Join(o.m), canon |-> ""] : o \in MagOver }
                 \cup { [cls |-> "int_overflow", radix |-> 10, neg |-> FALSE, suffix |-> "im", text |-> Join(o.m) \o "im", canon |-> ""] : o \in {x \in MagOver : x.r = 10} }

(* the same spellings are also used with units and `im` (decimal only; a blank or not); the magnitudes around the *)
(* representation boundaries (2^31 .. 2^128-1) are used there too                                             *)
Units == { [t |-> "dt", u |-> "Cycle"], [t |-> "ns", u |-> "NanoSecond"], [t |-> "us", u |-> "MicroSecond"],
           [t |-> "%%00B5;s", u |-> "MicroSecond"], [t |-> "ms", u |-> "MilliSecond"], [t |-> "s", u |-> "Second"] }
SmallDec == { <<"0">>, <<"1">>, <<"1", "0">>, <<"1", "0", "0", "0">>, <<"0", "7">>, <<"4","2","9","4","9","6","7","2","9","6">> }
TimingIntCases ==
  UNION { { [cls |-> "timing_int", radix |-> 10, neg |-> FALSE, suffix |-> u.u,
             text |-> Join(sp) \o gap \o u.t, canon |-> Canon(m)] :
             sp \in Placements(m), u \in Units, gap \in {"", " ", "  "} } : m \in SmallDec }
  \cup UNION { { [cls |-> "timing_int", radix |-> 10, neg |-> FALSE, suffix |-> u.u,
             text |-> Join(m) \o u.t, canon |-> Canon(m)] : u \in Units } : m \in MagDec }
ImagIntCases ==
  UNION { { [cls |-> "imag_int", radix |-> 10, neg |-> n, suffix |-> "im",
             text |-> Join(sp) \o gap \o "im", canon |-> Canon(m)] :
             sp \in Placements(m), gap \in {"", " "}, n \in BOOLEAN } : m \in SmallDec \cup MagDec }

(* floats: integer part, optional fraction, optional exponent; CanonText = no underscores *)
(* <<"2", "_">> and <<"5", "_">>: a separator directly in front of the exponent or the dot is accepted by the front end *)
IntParts  == { <<"0">>, <<"1">>, <<"1", "0">>, <<"1", "_", "0">>, <<"1","2","3","4","5","6","7","8","9">>, <<"0", "0", "7">>, <<"2", "_">> }
FracParts == { <<>>, <<"5">>, <<"0">>, <<"2", "5">>, <<"5", "_", "0">>, <<"5", "_">>, <<"0","0","0","1">>, <<"1","2","3","4","5","6","7","8","9","0","1","2","3","4","5","6","7","8","9">> }
Exps      == { <<>>, <<"e", "3">>, <<"E", "3">>, <<"e", "-", "3">>, <<"E", "+", "3">>, <<"e", "1", "_", "0">>, <<"e", "0">>,
               <<"e", "-", "3", "0", "0">>, <<"e", "3", "0", "8">>, <<"e", "+", "2">> }
(* shapes: "I.F", "I.", ".F", "I" (needs an exponent) *)
FloatSpellings ==
     { i \o <<".">> \o f \o e : i \in IntParts, f \in FracParts \ {<<>>}, e \in Exps }
  \cup { i \o <<".">> \o e : i \in IntParts, e \in Exps }
  \cup { <<".">> \o f \o e : f \in FracParts \ {<<>>}, e \in Exps }
  \cup { i \o e : i \in IntParts, e \in Exps \ {<<>>} }
FloatCases ==
  { [cls |-> "float", radix |-> 10, neg |-> n, suffix |-> "", text |-> Join(sp), canon |-> Join(NoUnderscore(sp))] :
      sp \in FloatSpellings, n \in BOOLEAN }
SmallFloats == { <<"2", ".", "5">>, <<"1", ".">>, <<".", "5">>, <<"1", "e", "3">>, <<"1", "_", "0", ".", "2", "5", "e", "-", "1">> }
TimingFloatCases ==
  { [cls |-> "timing_float", radix |-> 10, neg |-> FALSE, suffix |-> u.u, text |-> Join(sp) \o gap \o u.t,
     canon |-> Join(NoUnderscore(sp))] : sp \in SmallFloats, u \in Units, gap \in {"", " "} }
ImagFloatCases ==
  { [cls |-> "imag_float", radix |-> 10, neg |-> n, suffix |-> "im", text |-> Join(sp) \o gap \o "im",
     canon |-> Join(NoUnderscore(sp))] : sp \in SmallFloats, gap \in {"", " "}, n \in BOOLEAN }

(* bit strings: bits with optional single underscores, both quote styles; width = number of bits *)
BitSeqs == { <<"0">>, <<"1">>, <<"0", "1", "0", "1">>, <<"1", "1", "1", "1", "0", "0", "0", "0">>, Ones(32), Ones(33),
             <<"1">> \o Rep("0", 63), Ones(128), <<"0">> \o Ones(255), Rep("0", 256) }
BitCases ==
  UNION { { [cls |-> "bits", radix |-> 2, neg |-> FALSE, suffix |-> q, text |-> q \o Join(sp) \o q,
             canon |-> Join(NoUnderscore(sp)), width |-> Len(NoUnderscore(sp))] :
             sp \in Placements(b), q \in {"\"", "'"} } : b \in BitSeqs }
BitCasesOK == { c \in BitCases : TRUE }

BoolCases == { [cls |-> "bool", radix |-> 0, neg |-> FALSE, suffix |-> "", text |-> "true", canon |-> "true"],
               [cls |-> "bool", radix |-> 0, neg |-> FALSE, suffix |-> "", text |-> "false", canon |-> "false"] }

AllCases == IntCases \cup OverflowCases \cup TimingIntCases \cup ImagIntCases \cup FloatCases \cup TimingFloatCases
            \cup ImagFloatCases \cup BoolCases





=============================================================================
