----------------------------- MODULE RefGrammar -----------------------------
(***************************************************************************)
(* Requirement spec (R) for C04, C05, C16: the reference grammar of the      *)
(* supported OpenQASM 3 subset as ABSTRACT SYNTAX, a PRINTER to tokens that   *)
(* inserts exactly the parentheses the OpenQASM 3 precedence table requires   *)
(* (or redundant ones), and - since the abstract tree is what a user must be  *)
(* able to read off the typed AST - the tree itself as the expected SKELETON. *)
(* The precedence table is written from the language specification:           *)
(*   postfix > ** (right) > unary ! - ~ > * / % > + - > << >> > < <= > >=     *)
(*   > == != > & > ^ > | > && > ||     (binary operators left-associative     *)
(*   except the power operator).                                             *)
(* Nothing here is taken from the parser's binding-power table.               *)
(***************************************************************************)
EXTENDS Naturals, Sequences, FiniteSets, TLC

None == [k |-> "none"]

(***************************** expressions *********************************)
Id(n)          == [k |-> "id", n |-> n]
Lit(t)         == [k |-> "lit", t |-> t]                    \* literal with its source text
TLit(t, u)     == [k |-> "tlit", t |-> t, u |-> u]          \* number + time/imaginary unit
HwQ(n)         == [k |-> "hwq", n |-> n]                    \* $0
Bin(op, l, r)  == [k |-> "bin", op |-> op, l |-> l, r |-> r]
Un(op, e)      == [k |-> "un", op |-> op, e |-> e]
Call(f, args)  == [k |-> "call", f |-> f, args |-> args]
Idx(n, ix)     == [k |-> "index", n |-> n, ix |-> ix]       \* n[ix1, ix2, ...]
IdxM(n, ixs)   == [k |-> "index", n |-> n, ix |-> ixs, multi |-> TRUE]   \* n[..][..]: several index operators on a name
IdxE(base, ix) == [k |-> "indexexpr", base |-> base, ix |-> ix]      \* base[ix...] on a call, cast or index expression
Cast(ty, e)    == [k |-> "cast", ty |-> ty, e |-> e]
Rng(a, s, b)   == [k |-> "range", a |-> a, s |-> s, b |-> b]  \* a:s:b (s may be None)
SetE(es)       == [k |-> "set", es |-> es]                  \* {e1, e2}
Meas(q)        == [k |-> "measure", q |-> q]
Par(e)         == [k |-> "paren", e |-> e]                  \* explicitly parenthesised (printing only)
BlkE(ss)       == [k |-> "blockexpr", stmts |-> ss]         \* anonymous block { ... } as a statement
Ty(b, w)       == [k |-> "ty", b |-> b, w |-> w]            \* int[w], w may be None; complex: w is a Ty

BinOps == <<"**", "*", "/", "%", "+", "-", "<<", ">>", "<", "<=", ">", ">=", "==", "!=", "&", "^", "|", "&&", "||">>
UnOps  == <<"-", "!", "~">>

Prec(op) == CASE op = "||" -> 1 [] op = "&&" -> 2 [] op = "|" -> 3 [] op = "^" -> 4 [] op = "&" -> 5
              [] op \in {"==", "!="} -> 6 [] op \in {"<", "<=", ">", ">="} -> 7 [] op \in {"<<", ">>"} -> 8
              [] op \in {"+", "-"} -> 9 [] op \in {"*", "/", "%"} -> 10 [] op = "**" -> 12
              [] OTHER -> 0     \* "++" (alias concatenation) binds weakest
UnaryPrec == 11
RightAssoc(op) == op = "**"

RECURSIVE Flat(_)
Flat(ss) == IF ss = <<>> THEN <<>> ELSE ss[1] \o Flat(Tail(ss))
RECURSIVE Sep(_, _)
(* join token lists with a separator token *)
Sep(ss, s) == IF ss = <<>> THEN <<>> ELSE IF Len(ss) = 1 THEN ss[1] ELSE ss[1] \o <<s>> \o Sep(Tail(ss), s)

(* Does expression e, appearing as a child with context precedence cp on     *)
(* side sd ("L", "R", "U" operand of unary, "T" top), need parentheses?       *)
OwnPrec(e) == IF e.k = "bin" THEN Prec(e.op) ELSE IF e.k = "un" THEN UnaryPrec ELSE 13
NeedsParen(e, cp, sd, pop) ==
  LET p == OwnPrec(e) IN
  \/ p < cp
  \/ p = cp /\ e.k = "bin" /\ ((sd = "R" /\ ~RightAssoc(pop)) \/ (sd = "L" /\ RightAssoc(pop)))
  \* a unary operand directly to the right of a tighter binary operator is written in parentheses
  \/ e.k = "un" /\ sd = "R" /\ cp > UnaryPrec

RECURSIVE PE(_, _, _, _, _), PT(_), PEs(_, _), PS(_, _), PSs(_, _), PB(_, _), PIxs(_, _)
(* PE(e, cp, sd, pop, full): tokens of e; full = parenthesise every compound subexpression *)
PE(e, cp, sd, pop, full) ==
  LET body ==
        CASE e.k = "id"   -> <<e.n>>
          [] e.k = "lit"  -> <<e.t>>
          [] e.k = "tlit" -> <<e.t, e.u>>
          [] e.k = "hwq"  -> <<e.n>>
          [] e.k = "bin"  -> PE(e.l, Prec(e.op), "L", e.op, full) \o <<e.op>> \o PE(e.r, Prec(e.op), "R", e.op, full)
          [] e.k = "un"   -> <<e.op>> \o PE(e.e, UnaryPrec, "U", e.op, full)
          [] e.k = "call" -> <<e.f, "(">> \o PEs(e.args, full) \o <<")">>
          [] e.k = "index" -> (IF "multi" \in DOMAIN e THEN <<e.n>> \o PIxs(e.ix, full) ELSE <<e.n, "[">> \o PEs(e.ix, full) \o <<"]">>)
          [] e.k = "indexexpr" -> PE(e.base, 0, "T", "", full) \o <<"[">> \o PEs(e.ix, full) \o <<"]">>
          [] e.k = "cast" -> PT(e.ty) \o <<"(">> \o PE(e.e, 0, "T", "", full) \o <<")">>
          [] e.k = "range" -> PE(e.a, 0, "T", "", full) \o <<":">> \o
                              (IF e.s = None THEN <<>> ELSE PE(e.s, 0, "T", "", full) \o <<":">>) \o PE(e.b, 0, "T", "", full)
          [] e.k = "set"  -> <<"{">> \o PEs(e.es, full) \o <<"}">>
          [] e.k = "measure" -> <<"measure">> \o PE(e.q, 0, "T", "", full)
          [] e.k = "paren" -> <<"(">> \o PE(e.e, 0, "T", "", full) \o <<")">>
          [] e.k = "blockexpr" -> <<"{">> \o PSs(e.stmts, full) \o <<"}">>
      paren == IF e.k \in {"bin", "un"} THEN (IF full THEN sd # "T" ELSE NeedsParen(e, cp, sd, pop)) ELSE FALSE
  IN IF paren THEN <<"(">> \o body \o <<")">> ELSE body
PIxs(ixs, full) == IF ixs = <<>> THEN <<>> ELSE <<"[">> \o PEs(ixs[1], full) \o <<"]">> \o PIxs(Tail(ixs), full)
PEs(es, full) == Sep([i \in 1..Len(es) |-> PE(es[i], 0, "T", "", full)], ",")
PT(ty) == IF ty.w = None THEN <<ty.b>>
          ELSE IF ty.w.k = "ty" THEN <<ty.b, "[">> \o PT(ty.w) \o <<"]">>
          ELSE <<ty.b, "[">> \o PE(ty.w, 0, "T", "", FALSE) \o <<"]">>

PExpr(e, full) == PE(e, 0, "T", "", full)

(***************************** statements **********************************)
(* A body is [block, stmts]: block = FALSE means a single statement without braces *)
Body(block, stmts) == [k |-> "body", block |-> block, stmts |-> stmts]

Decl(const, ty, n, init) == [k |-> "decl", const |-> const, ty |-> ty, n |-> n, init |-> init]
QDecl(n, size)      == [k |-> "qdecl", n |-> n, size |-> size]          \* qubit[size] n
IODecl(dir, ty, n)  == [k |-> "io", dir |-> dir, ty |-> ty, n |-> n]
Assign(lhs, rhs)    == [k |-> "assign", lhs |-> lhs, op |-> "=", rhs |-> rhs]  \* lhs: Id or Idx
CAssign(lhs, op, rhs) == [k |-> "assign", lhs |-> lhs, op |-> op, rhs |-> rhs] \* += etc.
Alias(n, rhs)       == [k |-> "alias", n |-> n, rhs |-> rhs]
GateCall(mods, n, params, qs) == [k |-> "gatecall", mods |-> mods, n |-> n, params |-> params, qs |-> qs]
GPhase(mods, arg)   == [k |-> "gphase", mods |-> mods, arg |-> arg]
Reset(q)            == [k |-> "reset", q |-> q]
Barrier(qs)         == [k |-> "barrier", qs |-> qs]
Delay(d, qs)        == [k |-> "delay", d |-> d, qs |-> qs]
If(c, t, e)         == [k |-> "if", c |-> c, t |-> t, e |-> e]          \* e: Body or None
While(c, b)         == [k |-> "while", c |-> c, b |-> b]
For(ty, v, it, b)   == [k |-> "for", ty |-> ty, v |-> v, it |-> it, b |-> b]   \* it: Rng in [] / SetE / expr
Switch(c, cases, d) == [k |-> "switch", c |-> c, cases |-> cases, d |-> d]     \* cases: seq [vals, stmts]; d: seq or None
Break               == [k |-> "break"]
Continue            == [k |-> "continue"]
End                 == [k |-> "end"]
Gate(n, ps, qs, stmts) == [k |-> "gate", n |-> n, ps |-> ps, qs |-> qs, stmts |-> stmts]
Def(n, ps, ret, stmts) == [k |-> "def", n |-> n, ps |-> ps, ret |-> ret, stmts |-> stmts] \* ps: seq [ty, n]
Return(e)           == [k |-> "return", e |-> e]
Pragma(t)           == [k |-> "pragma", t |-> t]
Annot(t)            == [k |-> "annot", t |-> t]
Include(f)          == [k |-> "include", f |-> f]
ExprStmt(e)         == [k |-> "exprstmt", e |-> e]
Empty               == [k |-> "empty"]                                    \* lone ";"

Mod(m, arg) == [m |-> m, arg |-> arg]      \* inv / pow(e) / ctrl / ctrl(e) / negctrl
PMod(m, full) == IF m.arg = None THEN <<m.m, "@">> ELSE <<m.m, "(">> \o PExpr(m.arg, full) \o <<")", "@">>

PSs(ss, full) == Flat([i \in 1..Len(ss) |-> PS(ss[i], full)])
PB(b, full) == IF b.block THEN <<"{">> \o PSs(b.stmts, full) \o <<"}">> ELSE PS(b.stmts[1], full)
PS(s, full) ==
  CASE s.k = "decl" -> (IF s.const THEN <<"const">> ELSE <<>>) \o PT(s.ty) \o <<s.n>> \o
                       (IF s.init = None THEN <<>> ELSE <<"=">> \o PExpr(s.init, full)) \o <<";">>
    [] s.k = "qdecl" -> <<"qubit">> \o (IF s.size = None THEN <<>> ELSE <<"[">> \o PExpr(s.size, full) \o <<"]">>) \o <<s.n, ";">>
    [] s.k = "io" -> <<s.dir>> \o PT(s.ty) \o <<s.n, ";">>
    [] s.k = "assign" -> PExpr(s.lhs, full) \o <<s.op>> \o PExpr(s.rhs, full) \o <<";">>
    [] s.k = "alias" -> <<"let", s.n, "=">> \o PExpr(s.rhs, full) \o <<";">>
    [] s.k = "gatecall" -> Flat([i \in 1..Len(s.mods) |-> PMod(s.mods[i], full)]) \o <<s.n>> \o
                           (IF s.params = <<>> THEN <<>> ELSE <<"(">> \o PEs(s.params, full) \o <<")">>) \o
                           PEs(s.qs, full) \o <<";">>
    [] s.k = "gphase" -> Flat([i \in 1..Len(s.mods) |-> PMod(s.mods[i], full)]) \o <<"gphase", "(">> \o PExpr(s.arg, full) \o <<")", ";">>
    [] s.k = "reset" -> <<"reset">> \o PExpr(s.q, full) \o <<";">>
    [] s.k = "barrier" -> <<"barrier">> \o PEs(s.qs, full) \o <<";">>
    [] s.k = "delay" -> <<"delay", "[">> \o PExpr(s.d, full) \o <<"]">> \o PEs(s.qs, full) \o <<";">>
    [] s.k = "if" -> <<"if", "(">> \o PExpr(s.c, full) \o <<")">> \o PB(s.t, full) \o
                     (IF s.e = None THEN <<>> ELSE <<"else">> \o PB(s.e, full))
    [] s.k = "while" -> <<"while", "(">> \o PExpr(s.c, full) \o <<")">> \o PB(s.b, full)
    [] s.k = "for" -> <<"for">> \o PT(s.ty) \o <<s.v, "in">> \o
                      (IF s.it.k = "range" THEN <<"[">> \o PExpr(s.it, full) \o <<"]">> ELSE PExpr(s.it, full)) \o PB(s.b, full)
    [] s.k = "switch" -> <<"switch", "(">> \o PExpr(s.c, full) \o <<")", "{">> \o
                         Flat([i \in 1..Len(s.cases) |-> <<"case">> \o PEs(s.cases[i].vals, full) \o <<"{">> \o PSs(s.cases[i].stmts, full) \o <<"}">>]) \o
                         (IF s.d = None THEN <<>> ELSE <<"default", "{">> \o PSs(s.d.stmts, full) \o <<"}">>) \o <<"}">>
    [] s.k = "break" -> <<"break", ";">>
    [] s.k = "continue" -> <<"continue", ";">>
    [] s.k = "end" -> <<"end", ";">>
    [] s.k = "gate" -> <<"gate", s.n>> \o (IF s.ps = <<>> THEN <<>> ELSE <<"(">> \o Sep([i \in 1..Len(s.ps) |-> <<s.ps[i]>>], ",") \o <<")">>) \o
                       Sep([i \in 1..Len(s.qs) |-> <<s.qs[i]>>], ",") \o <<"{">> \o PSs(s.stmts, full) \o <<"}">>
    [] s.k = "def" -> <<"def", s.n, "(">> \o Sep([i \in 1..Len(s.ps) |-> PT(s.ps[i].ty) \o <<s.ps[i].n>>], ",") \o <<")">> \o
                      (IF s.ret = None THEN <<>> ELSE <<"->">> \o PT(s.ret)) \o <<"{">> \o PSs(s.stmts, full) \o <<"}">>
    [] s.k = "return" -> <<"return">> \o (IF s.e = None THEN <<>> ELSE PExpr(s.e, full)) \o <<";">>
    [] s.k = "pragma" -> <<"pragma " \o s.t, "\n">>
    [] s.k = "annot" -> <<"@" \o s.t, "\n">>
    [] s.k = "include" -> <<"include", "\"" \o s.f \o "\"", ";">>
    [] s.k = "exprstmt" -> PExpr(s.e, full) \o (IF s.e.k = "blockexpr" THEN <<>> ELSE <<";">>)
    [] s.k = "empty" -> <<";">>

PProgram(ss, full) == PSs(ss, full)
=============================================================================
