SPECIFICATION Spec
CONSTANTS Tier = "thorough"
