---------------------------- MODULE GrammarCases ----------------------------
(***************************************************************************)
(* Case families derived from RefGrammar (B1 for C04, C05, C16).  Every case *)
(* is [fam, sig, full, toks, sk]: token list printed by RefGrammar!PS with    *)
(* minimal (full = FALSE) or redundant parentheses, and the abstract          *)
(* statement list that the typed AST must reproduce.  `sig` names the case    *)
(* (family : distinguishing operators) for reporting.                        *)
(***************************************************************************)
EXTENDS RefGrammar, Json

CONSTANT Tier       \* "quick" or "thorough"

a == Id("a")  b == Id("b")  c == Id("c")  d == Id("d")
one == Lit("1")  two == Lit("2")
IntT == Ty("int", None)

Ops == {BinOps[i] : i \in 1..Len(BinOps)}
Uns == {UnOps[i] : i \in 1..Len(UnOps)}

Case(fam, sig, full, ss) == [fam |-> fam, sig |-> sig, full |-> full, toks |-> PProgram(ss, full), sk |-> ss]

(* an expression placed as declaration initialiser, expression statement, and if-condition *)
InDecl(e)  == << Decl(FALSE, IntT, "x", e) >>
InStmt(e)  == << ExprStmt(e) >>
InCond(e)  == << If(e, Body(TRUE, <<Break>>), None) >>
InAssign(e) == << Assign(Id("x"), e) >>

(***************************** C05: expression shapes **********************)
PairL(o1, o2) == Bin(o1, Bin(o2, a, b), c)
PairR(o1, o2) == Bin(o1, a, Bin(o2, b, c))
ExprPairCases ==
  UNION { { Case("pairL", "pairL:" \o o1 \o ":" \o o2, f, InDecl(PairL(o1, o2))),
            Case("pairR", "pairR:" \o o1 \o ":" \o o2, f, InDecl(PairR(o1, o2))) } : o1 \in Ops, o2 \in Ops, f \in BOOLEAN }
ExprUnaryCases ==
  UNION { { Case("unOfBin", "unOfBin:" \o u \o ":" \o o, f, InDecl(Un(u, Bin(o, a, b)))),
            Case("binOfUnL", "binOfUnL:" \o o \o ":" \o u, f, InDecl(Bin(o, Un(u, a), b))),
            Case("binOfUnR", "binOfUnR:" \o o \o ":" \o u, f, InDecl(Bin(o, a, Un(u, b)))) } : u \in Uns, o \in Ops, f \in BOOLEAN }
  \cup { Case("unUn", "unUn:" \o u1 \o ":" \o u2, f, InDecl(Un(u1, Un(u2, a)))) : u1 \in Uns, u2 \in Uns, f \in BOOLEAN }
  (* the same with LITERAL operands: a prefix operator directly in front of a literal must bind as in front of a name *)
  \cup UNION { { Case("unOfBinLit", "unOfBinLit:" \o u \o ":" \o o, f, InDecl(Un(u, Bin(o, two, one)))),
                 Case("binOfUnLLit", "binOfUnLLit:" \o o \o ":" \o u, f, InDecl(Bin(o, Un(u, two), one))),
                 Case("binOfUnRLit", "binOfUnRLit:" \o o \o ":" \o u, f, InDecl(Bin(o, two, Un(u, Lit("2.5"))))) } : u \in Uns, o \in Ops, f \in BOOLEAN }
  \cup { Case("unLit@stmt", "unLit@stmt:" \o u \o ":" \o o, FALSE, InStmt(Un(u, Bin(o, two, a)))) : u \in Uns, o \in Ops }
ExprPostfixCases ==
  UNION { { Case("binOfPostfix", "binOfPostfix:" \o o, f, InDecl(Bin(o, Call("f", <<a, one>>), Idx("v", <<b>>)))),
            Case("argOfCall", "argOfCall:" \o o, f, InDecl(Call("f", <<Bin(o, a, b), c>>))),
            Case("indexOf", "indexOf:" \o o, f, InDecl(Idx("v", <<Bin(o, a, b)>>))),
            Case("castOf", "castOf:" \o o, f, InDecl(Cast(Ty("float", Lit("32")), Bin(o, a, b)))),
            Case("binOfCast", "binOfCast:" \o o, f, InDecl(Bin(o, Cast(Ty("int", Lit("8")), a), Cast(Ty("bool", None), b)))) } : o \in Ops, f \in BOOLEAN }
  (* items of index lists, sets, argument lists and case values that START with a unary operator *)
  \cup UNION { { Case("itemStartsWithUn", "itemStartsWithUn:index:" \o u, f, InDecl(Idx("v", <<Un(u, a)>>))),
                 Case("itemStartsWithUn", "itemStartsWithUn:index2:" \o u, f, InDecl(Idx("v", <<one, Un(u, a)>>))),
                 Case("itemStartsWithUn", "itemStartsWithUn:arg:" \o u, f, InDecl(Call("f", <<Un(u, a), Un(u, b)>>))),
                 Case("itemStartsWithUn", "itemStartsWithUn:assignIndex:" \o u, f, << Assign(Idx("v", <<Un(u, a)>>), one) >>),
                 Case("itemStartsWithUn", "itemStartsWithUn:set:" \o u, f, << For(IntT, "i", SetE(<<Un(u, a), two>>), Body(TRUE, <<>>)) >>),
                 Case("itemStartsWithUn", "itemStartsWithUn:case:" \o u, f, << Switch(a, <<[vals |-> <<Un(u, one), two>>, stmts |-> <<>>]>>, None) >>) } : u \in Uns, f \in {FALSE} }
  \cup { Case("postfixChain", "postfixChain:" \o sg, f, InDecl(e)) : f \in BOOLEAN,
          <<sg, e>> \in { <<"call[i][j]", IdxE(IdxE(Call("f", <<a>>), <<one>>), <<two>>)>>,
                          <<"cast[r][i]", IdxE(IdxE(Cast(Ty("bit", Lit("8")), a), <<Rng(one, None, two)>>), <<one>>)>>,
                          <<"cast[i]", IdxE(Cast(Ty("bit", Lit("8")), a), <<one>>)>>,
                          <<"call[i,j]", IdxE(Call("f", <<a, b>>), <<one, two>>)>>,
                          <<"name[i][j]", IdxM("v", << <<one>>, <<two>> >>)>>,
                          <<"name[i][j][k]", IdxM("v", << <<one>>, <<a>>, <<Rng(one, None, two)>> >>)>>,
                          <<"name[i,j]", Idx("v", <<one, two>>)>>,
                          <<"bin(call[i][j])", Bin("+", IdxE(IdxE(Call("f", <<a>>), <<one>>), <<two>>), b)>> } }
  \cup UNION { { Case("unOfPostfix", "unOfPostfix:" \o u, f, InDecl(Un(u, Call("f", <<a>>)))),
                 Case("unOfIndex", "unOfIndex:" \o u, f, InDecl(Un(u, Idx("v", <<one>>)))),
                 Case("unOfCast", "unOfCast:" \o u, f, InDecl(Un(u, Cast(IntT, a)))) } : u \in Uns, f \in BOOLEAN }
(* the same pair table in the other expression contexts (minimal parentheses only) *)
ExprContextCases ==
  UNION { { Case("pairL@stmt", "pairL@stmt:" \o o1 \o ":" \o o2, FALSE, InStmt(PairL(o1, o2))),
            Case("pairR@cond", "pairR@cond:" \o o1 \o ":" \o o2, FALSE, InCond(PairR(o1, o2))),
            Case("pairL@assign", "pairL@assign:" \o o1 \o ":" \o o2, FALSE, InAssign(PairL(o1, o2))) } : o1 \in Ops, o2 \in Ops }
  \cup { Case("bin@assign", "bin@assign:" \o o, FALSE, InAssign(Bin(o, a, b))) : o \in Ops }
  \cup { Case("un@assign", "un@assign:" \o u, FALSE, InAssign(Un(u, a))) : u \in Uns }
  \cup { Case("un@stmt", "un@stmt:" \o u, FALSE, InStmt(Un(u, a))) : u \in Uns }
(* all triples, thorough tier *)
ExprTripleCases ==
  IF Tier = "quick" THEN {}
  ELSE UNION { { Case("triple", "triple:" \o o1 \o ":" \o o2 \o ":" \o o3, FALSE, InDecl(Bin(o1, Bin(o2, a, b), Bin(o3, c, d)))),
                 Case("chainL", "chainL:" \o o1 \o ":" \o o2 \o ":" \o o3, FALSE, InDecl(Bin(o1, Bin(o2, Bin(o3, a, b), c), d))),
                 Case("chainR", "chainR:" \o o1 \o ":" \o o2 \o ":" \o o3, FALSE, InDecl(Bin(o1, a, Bin(o2, b, Bin(o3, c, d))))) } :
               o1 \in Ops, o2 \in Ops, o3 \in Ops }

(***************************** C04/C05: statements *************************)
q == Id("q")  q0 == Idx("q", <<Lit("0")>>)  r1 == Idx("r", <<one>>)  hw == HwQ("$0")
SmallExprs == { a, one, Lit("2.5"), Lit("true"), Lit("\"0101\""), TLit("10", "ns"), TLit("2", "im"), TLit("10", "%%00B5;s"), TLit("2.5", "us"), TLit("3", "dt"), TLit("1", "ms"), TLit("4", "s"), Bin("+", a, one), Bin("==", a, b),
                Un("-", a), Call("f", <<a>>), Call("f", <<>>), Idx("v", <<one>>), Cast(IntT, a), Bin("*", Call("f", <<a, b>>), Lit("3")) }
Types == { Ty("int", None), Ty("int", Lit("32")), Ty("uint", Lit("8")), Ty("float", Lit("64")), Ty("float", None), Ty("angle", Lit("16")),
           Ty("bit", None), Ty("bit", Lit("4")), Ty("bool", None), Ty("duration", None), Ty("stretch", None), Ty("complex", None),
           Ty("complex", Ty("float", Lit("64"))), Ty("int", Id("n")) }

Leaf == { Assign(Id("x"), one), GateCall(<<>>, "h", <<>>, <<q>>), Break, Continue, ExprStmt(Call("f", <<a>>)) }
Bodies == { Body(TRUE, <<>>), Body(TRUE, <<Assign(Id("x"), one)>>), Body(TRUE, <<GateCall(<<>>, "h", <<>>, <<q>>), Assign(Id("x"), a)>>),
            Body(FALSE, <<Assign(Id("x"), one)>>), Body(FALSE, <<GateCall(<<>>, "h", <<>>, <<q>>)>>), Body(FALSE, <<Break>>),
            Body(FALSE, <<ExprStmt(Call("f", <<a>>))>>) }
Mods == { <<>>, <<Mod("inv", None)>>, <<Mod("pow", two)>>, <<Mod("ctrl", None)>>, <<Mod("ctrl", two)>>, <<Mod("negctrl", None)>>,
          <<Mod("inv", None), Mod("pow", Bin("+", a, one))>>, <<Mod("ctrl", None), Mod("inv", None)>>, <<Mod("negctrl", two), Mod("ctrl", None), Mod("pow", Lit("0.5"))>> }

DeclStmts ==
     { Decl(cn, t, "x", None) : cn \in {FALSE}, t \in Types }
  \cup { Decl(cn, t, "x", e) : cn \in BOOLEAN, t \in {Ty("int", None), Ty("float", Lit("64")), Ty("bit", Lit("4")), Ty("complex", Ty("float", Lit("64")))}, e \in SmallExprs }
  \cup { Decl(FALSE, Ty("bit", None), "m", Meas(q)), Decl(FALSE, Ty("bit", Lit("2")), "m", Meas(Idx("r", <<one>>))), Decl(FALSE, Ty("bit", None), "m", Meas(hw)),
         QDecl("q", None), QDecl("r", Lit("4")), QDecl("r", Id("n")),
         IODecl("input", Ty("int", Lit("8")), "p"), IODecl("output", Ty("bit", Lit("4")), "o"), IODecl("input", Ty("angle", None), "t"),
         Alias("al", Id("r")), Alias("al", Idx("r", <<Rng(Lit("0"), None, Lit("2"))>>)), Alias("al", Bin("++", Id("r"), Id("s"))) }
AssignStmts ==
     { Assign(Id("x"), e) : e \in SmallExprs }
  \cup { Assign(Idx("v", <<one>>), a), Assign(Idx("v", <<a, b>>), one), Assign(Id("m"), Meas(q)), Assign(Idx("m", <<Lit("0")>>), Meas(q0)),
         Assign(Id("x"), Idx("v", <<Rng(one, two, Lit("8"))>>)), Assign(Id("x"), Idx("v", <<SetE(<<one, two>>)>>)) }
  \cup { CAssign(Id("x"), o, one) : o \in {"+=", "-=", "*=", "/=", "&=", "|=", "^=", "<<=", ">>=", "%="} }
QOperands2 == { Idx("q", <<Lit("0"), one>>), IdxM("q", << <<Lit("0")>>, <<one>> >>), Idx("q", <<Rng(Lit("0"), None, one)>>), Idx("q", <<Lit("0"), a>>) }
GateStmts ==
     { GateCall(m, "h", <<>>, <<q>>) : m \in Mods }
  \cup { GateCall(m, "rx", <<Bin("/", Id("pi"), two)>>, <<q0>>) : m \in Mods }
  \cup { GateCall(<<>>, "cx", <<>>, <<q0, r1>>), GateCall(<<>>, "U", <<a, b, Un("-", c)>>, <<hw>>), GateCall(<<>>, "ccx", <<>>, <<q, r1, hw>>),
         GateCall(<<>>, "g", <<>>, <<Idx("r", <<one>>), Idx("r", <<two>>)>>),
         GPhase(<<>>, Id("pi")), GPhase(<<Mod("ctrl", None)>>, Bin("/", Id("pi"), two)), GPhase(<<Mod("inv", None)>>, a),
         Reset(q), Reset(q0), Reset(hw), Barrier(<<q>>), Barrier(<<q, r1, hw>>), Barrier(<<>>),
         Delay(TLit("10", "ns"), <<q>>), Delay(TLit("20", "%%00B5;s"), <<q>>), Delay(Id("t"), <<q0, r1>>), Delay(Bin("*", two, Id("t")), <<q>>) }
  (* durations that start with a float literal, or are expressions starting with one *)
  \cup { Delay(TLit("1.5", "ns"), <<q>>), Delay(TLit(".5", "us"), <<hw>>), Delay(Bin("*", Lit("2.0"), Id("t")), <<q0, r1>>), Delay(TLit("2.5", "%%00B5;s"), <<q>>) }
  (* operands with several indexes in one operator, and with several index operators *)
  \cup { GateCall(<<>>, "h", <<>>, <<o>>) : o \in QOperands2 } \cup { Reset(o) : o \in QOperands2 } \cup { Barrier(<<o, q>>) : o \in QOperands2 }
  \cup { Delay(TLit("10", "ns"), <<o>>) : o \in QOperands2 } \cup { Assign(Id("m"), Meas(o)) : o \in QOperands2 \cup {q0, hw} }
ControlStmts ==
     { If(cnd, t, e) : cnd \in {a, Bin("==", a, one), Lit("true")}, t \in Bodies, e \in Bodies \cup {None} }
  \cup { While(cnd, bd) : cnd \in {a, Bin("<", a, Lit("10"))}, bd \in Bodies }
  \cup { For(t, "i", it, bd) : t \in {Ty("int", None), Ty("uint", Lit("8"))},
                                it \in {Rng(Lit("0"), None, Lit("4")), Rng(Lit("0"), two, Lit("8")), Rng(a, None, b), SetE(<<one, two, Lit("3")>>), Id("arr")},
                                bd \in Bodies }
  \cup { If(a, Body(FALSE, <<If(b, Body(FALSE, <<Break>>), Body(FALSE, <<Continue>>))>>), None),
         If(a, Body(TRUE, <<>>), Body(FALSE, <<If(b, Body(TRUE, <<Break>>), Body(TRUE, <<Continue>>))>>)),
         While(a, Body(FALSE, <<While(b, Body(TRUE, <<Break>>))>>)),
         For(IntT, "i", Rng(Lit("0"), None, Lit("3")), Body(FALSE, <<For(IntT, "j", SetE(<<one>>), Body(TRUE, <<Continue>>))>>)) }
  \cup { Switch(a, <<[vals |-> <<one>>, stmts |-> <<Assign(Id("x"), one)>>]>>, None),
         Switch(Bin("+", a, one), <<[vals |-> <<one, two>>, stmts |-> <<>>], [vals |-> <<Lit("3")>>, stmts |-> <<Break, Assign(Id("x"), a)>>]>>, [stmts |-> <<Assign(Id("x"), two)>>]),
         Switch(a, <<>>, [stmts |-> <<>>]),
         Switch(a, <<[vals |-> <<Un("-", one)>>, stmts |-> <<GateCall(<<>>, "h", <<>>, <<q>>)>>]>>, [stmts |-> <<End>>]) }
  \cup { Break, Continue, End }
DefStmts ==
     { Gate("g", ps, qs, ss) : ps \in {<<>>, <<"t">>, <<"t", "u", "w">>}, qs \in {<<"q">>, <<"q", "r">>},
                               ss \in {<<>>, <<GateCall(<<>>, "h", <<>>, <<q>>)>>, <<GateCall(<<>>, "rx", <<Id("t")>>, <<q>>), GateCall(<<Mod("inv", None)>>, "h", <<>>, <<q>>)>>} }
  \cup { Def("f", ps, ret, ss) : ps \in {<<>>, <<[ty |-> IntT, n |-> "p"]>>, <<[ty |-> Ty("float", Lit("64")), n |-> "p"], [ty |-> Ty("qubit", None), n |-> "q"], [ty |-> Ty("bit", Lit("4")), n |-> "b"]>>},
                                 ret \in {None, IntT, Ty("bit", None), Ty("float", Lit("32"))},
                                 ss \in {<<>>, <<Return(None)>>, <<Return(Bin("+", Id("p"), one))>>, <<Decl(FALSE, IntT, "y", one), Return(Id("y"))>>} }
MiscStmts == { ExprStmt(BlkE(<<>>)), ExprStmt(BlkE(<<Assign(Id("x"), one), ExprStmt(BlkE(<<Break>>))>>)), Pragma("foo bar"), Annot("bind x"), Annot("reversible"), Include("stdgates.inc"), Include("other.qasm"),
               ExprStmt(Call("f", <<>>)), ExprStmt(Call("f", <<a, Bin("+", b, one)>>)), ExprStmt(a), ExprStmt(Bin("+", a, b)) }

AllStmts == DeclStmts \cup AssignStmts \cup GateStmts \cup ControlStmts \cup DefStmts \cup MiscStmts
StmtSig(s) == CASE s.k = "assign" /\ s.op = "=" /\ s.rhs.k = "bin" -> "stmt:assign:binary-rhs"
                 [] s.k = "for" /\ s.it.k = "id" /\ ~s.b.block -> "stmt:for:expr-iterable:stmt-body"
                 [] s.k = "exprstmt" /\ s.e.k = "blockexpr" /\ s.e.stmts # <<>> /\ s.e.stmts[Len(s.e.stmts)].k = "exprstmt"
                    /\ s.e.stmts[Len(s.e.stmts)].e.k = "blockexpr" -> "stmt:block:trailing-nested-block"
                 [] OTHER -> "stmt:" \o s.k
StmtCases == UNION { { Case("stmt:" \o s.k, StmtSig(s), f, <<s>>) : f \in {FALSE} } : s \in AllStmts }
(* annotations precede a statement *)
AnnotCases == { Case("annotated", "annotated:" \o s.k, FALSE, <<Annot("bind x"), s>>) : s \in {QDecl("q", None), GateCall(<<>>, "h", <<>>, <<q>>), Gate("g", <<>>, <<"q">>, <<>>)} }

(***************************** C16: sequences ******************************)
SeqPool == << Decl(FALSE, IntT, "x", None), Decl(TRUE, Ty("float", Lit("64")), "y", Lit("2.5")), QDecl("q", None), IODecl("input", IntT, "p"),
              Assign(Id("x"), one), Assign(Idx("v", <<one>>), a), Alias("al", Id("r")), GateCall(<<>>, "h", <<>>, <<q>>),
              GateCall(<<Mod("inv", None)>>, "rx", <<a>>, <<q0>>), GPhase(<<>>, Id("pi")), Reset(q), Barrier(<<q>>), Delay(TLit("10", "ns"), <<q>>),
              If(a, Body(TRUE, <<Break>>), None), If(a, Body(FALSE, <<Break>>), Body(FALSE, <<Continue>>)), While(a, Body(TRUE, <<>>)),
              While(a, Body(FALSE, <<Assign(Id("x"), one)>>)), For(IntT, "i", Rng(Lit("0"), None, Lit("3")), Body(TRUE, <<>>)),
              For(IntT, "i", Id("arr"), Body(FALSE, <<Assign(Id("x"), Id("i"))>>)),
              Switch(a, <<[vals |-> <<one>>, stmts |-> <<>>]>>, None), Break, Continue, End,
              Gate("g", <<>>, <<"q">>, <<>>), Def("f", <<>>, None, <<>>), Pragma("foo"), Annot("bind x"), Include("stdgates.inc"),
              ExprStmt(Call("f", <<a>>)), ExprStmt(a), ExprStmt(Bin("+", a, b)), Empty, Return(None), Return(a),
              Decl(FALSE, Ty("bit", None), "m", Meas(q)), ExprStmt(Cast(IntT, a)), ExprStmt(Un("-", a)), ExprStmt(Lit("1")),
              ExprStmt(BlkE(<<ExprStmt(a)>>)), ExprStmt(BlkE(<<>>)), ExprStmt(Par(a)), ExprStmt(Par(Bin("+", a, b))), ExprStmt(Un("!", a)), ExprStmt(Un("~", a)),
              ExprStmt(Idx("v", <<one>>)), ExprStmt(TLit("10", "ns")), GateCall(<<>>, "rx", <<a>>, <<q>>), ExprStmt(Lit("\"0101\"")) >>
NSeq == Len(SeqPool)
Contexts == {"file", "gate", "def", "if", "else", "while", "for", "case", "default", "block"}
SeqCase(ctx, idxs) == [fam |-> "seq", sig |-> "seq:" \o ctx, ctx |-> ctx, idx |-> idxs,
                       items |-> [i \in 1..Len(idxs) |-> PS(SeqPool[idxs[i]], FALSE)],
                       kinds |-> [i \in 1..Len(idxs) |-> SeqPool[idxs[i]].k]]
SeqCases ==
     { SeqCase(cx, <<i, j>>) : cx \in Contexts, i \in 1..NSeq, j \in 1..NSeq }
  \cup (IF Tier = "quick" THEN { SeqCase("file", <<i, j, i>>) : i \in 1..NSeq, j \in 1..NSeq }
        ELSE { SeqCase(cx, <<i, j, k>>) : cx \in {"file", "def", "if"}, i \in 1..NSeq, j \in 1..NSeq, k \in 1..NSeq })

ExprCases == ExprPairCases \cup ExprUnaryCases \cup ExprPostfixCases \cup ExprContextCases \cup ExprTripleCases
ASSUME \A x \in ExprCases \cup StmtCases \cup AnnotCases : PrintT(<<"CASE", ToJson(x)>>)
ASSUME \A x \in SeqCases : PrintT(<<"SEQ", ToJson(x)>>)
ASSUME PrintT(<<"COUNT", ToJson([expr |-> Cardinality(ExprCases), stmt |-> Cardinality(StmtCases), seq |-> Cardinality(SeqCases)])>>)

VARIABLE x
Init == x = 0
Next == x' = x
Spec == Init /\ [][Next]_x
=============================================================================
