SPECIFICATION Spec
CONSTANTS Tier = "quick"
