----------------------------- MODULE TypeRules -----------------------------
(***************************************************************************)
(* Requirement spec (R) for C09 (declared symbols carry exactly the declared *)
(* type) and C08 (expressions are typed consistently; conversions explicit   *)
(* or diagnosed).  A scalar type is [b, w, c]: base name, width as a DIGIT   *)
(* STRING ("" = not written) and const flag.  The rendering of a type in the *)
(* symbol table (Debug of oq3_semantics::types::Type) is the observation     *)
(* vocabulary.                                                              *)
(***************************************************************************)
EXTENDS Naturals, Sequences, FiniteSets, TLC, Json

(* widths across [1, 2^33] as digit strings with "fits in 32 bits" decided on the string *)
Widths == << [d |-> "1", fits |-> TRUE], [d |-> "2", fits |-> TRUE], [d |-> "8", fits |-> TRUE], [d |-> "31", fits |-> TRUE],
             [d |-> "32", fits |-> TRUE], [d |-> "64", fits |-> TRUE], [d |-> "128", fits |-> TRUE], [d |-> "65536", fits |-> TRUE],
             [d |-> "2147483647", fits |-> TRUE], [d |-> "2147483648", fits |-> TRUE], [d |-> "4294967295", fits |-> TRUE],
             [d |-> "4294967296", fits |-> FALSE], [d |-> "4294967297", fits |-> FALSE], [d |-> "8589934592", fits |-> FALSE] >>
WSet == {Widths[i] : i \in 1..Len(Widths)}
NoW == [d |-> "", fits |-> TRUE]

Sized == {"int", "uint", "float", "angle"}           \* T[w]
Unsized == {"bool", "duration", "stretch"}

CStr(c) == IF c THEN "True" ELSE "False"
WStr(w) == IF w.d = "" THEN "None" ELSE "Some(" \o w.d \o ")"
Cap(b) == CASE b = "int" -> "Int" [] b = "uint" -> "UInt" [] b = "float" -> "Float" [] b = "angle" -> "Angle" [] b = "complex" -> "Complex"
            [] b = "bool" -> "Bool" [] b = "duration" -> "Duration" [] b = "stretch" -> "Stretch" [] b = "bit" -> "Bit"
(* the type as the symbol table must record it *)
Rendered(b, w, c) ==
  CASE b \in Sized \cup {"complex"} -> Cap(b) \o "(" \o WStr(w) \o ", " \o CStr(c) \o ")"
    [] b \in Unsized -> Cap(b) \o "(" \o CStr(c) \o ")"
    [] b = "bit" -> IF w.d = "" THEN "Bit(" \o CStr(c) \o ")" ELSE "BitArray(D1(" \o w.d \o "), " \o CStr(c) \o ")"
    [] b = "qubit" -> IF w.d = "" THEN "Qubit" ELSE "QubitArray(D1(" \o w.d \o "))"
(* the type as written in source *)
Written(b, w) ==
  CASE b = "complex" -> IF w.d = "" THEN "complex" ELSE "complex[float[" \o w.d \o "]]"
    [] OTHER -> IF w.d = "" THEN b ELSE b \o "[" \o w.d \o "]"

(***************************** C09 cases ***********************************)
(* expect: [type |-> rendered] (must be recorded exactly) when the width fits;   *)
(*         otherwise a designator diagnostic is required and the recorded type  *)
(*         must not carry a different number                                   *)
Exp(b, w, c) == [type |-> Rendered(b, w, c), fits |-> w.fits, wd |-> w.d]
Bases == Sized \cup {"complex", "bit"}
AllW == WSet \cup {NoW}
DeclCase(form, text, sym, e) == [form |-> form, text |-> text, sym |-> sym, expect |-> e]

PlainCases   == { DeclCase("plain", Written(b, w) \o " x;", "x", Exp(b, w, FALSE)) : b \in Bases, w \in AllW }
              \cup { DeclCase("plain", b \o " x;", "x", Exp(b, NoW, FALSE)) : b \in Unsized }
ConstCases   == { DeclCase("const", "const " \o Written(b, w) \o " x = 1;", "x", Exp(b, w, TRUE)) : b \in {"int", "uint", "float"}, w \in AllW }
(* const-ness of the other declarable types, registers included *)
ConstRegCases == { DeclCase("const", "const bit[" \o w \o "] x = \"0\";", "x", [type |-> "BitArray(D1(" \o w \o "), True)", fits |-> TRUE, wd |-> w]) : w \in {"1", "4", "8", "64"} }
              \cup { DeclCase("const", "const bit x = 1;", "x", Exp("bit", NoW, TRUE)), DeclCase("const", "const bool x = true;", "x", Exp("bool", NoW, TRUE)),
                     DeclCase("const", "const duration x = 10ns;", "x", Exp("duration", NoW, TRUE)) }
              \cup { DeclCase("const", "const " \o Written(b, w) \o " x = 1;", "x", Exp(b, w, TRUE)) : b \in {"angle", "complex"}, w \in {NoW, [d |-> "32", fits |-> TRUE]} }
InitCases    == { DeclCase("init", Written(b, w) \o " x = 1;", "x", Exp(b, w, FALSE)) : b \in {"int", "uint", "float"}, w \in AllW }
QubitCases   == { DeclCase("qubit", Written("qubit", w) \o " x;", "x", Exp("qubit", w, FALSE)) : w \in AllW }
IOCases      == { DeclCase("io", dir \o " " \o Written(b, w) \o " x;", "x", Exp(b, w, FALSE)) : dir \in {"input", "output"}, b \in {"int", "float", "bit", "angle"}, w \in AllW }
ForCases     == { DeclCase("for", "for " \o Written(b, w) \o " x in [0:1] { }", "x", Exp(b, w, FALSE)) : b \in {"int", "uint"}, w \in AllW }
ParamCases   == { DeclCase("param", "def f(" \o Written(b, w) \o " x) { }", "x", Exp(b, w, FALSE)) : b \in {"int", "float", "bit", "angle", "complex"}, w \in AllW }
              \cup { DeclCase("param", "def f(qubit x) { }", "x", Exp("qubit", NoW, FALSE)), DeclCase("param", "def f(qubit[4] x) { }", "x", Exp("qubit", [d |-> "4", fits |-> TRUE], FALSE)) }
(* designator given by a const identifier *)
ConstIdCases == { DeclCase("constid", "const int n = " \o w.d \o "; " \o Written(b, [d |-> "n", fits |-> TRUE]) \o " x;", "x", Exp(b, w, FALSE)) : b \in {"int", "float", "bit", "qubit"}, w \in WSet }
(* ... where the constant is declared in a non-global scope (block / subroutine body) and used in the same  *)
(* scope or in one nested in it, or declared globally and used inside the scope                              *)
ScopePre == {"if (true) { ", "while (true) { ", "def f() { ", "for int i in [0:1] { ", "if (false) { } else { "}
ScopedW == { w \in WSet : w.d \in {"1", "8", "2147483648", "4294967296"} }
ScopedConstIdCases ==
     { DeclCase("constid-in:" \o pre, pre \o "const int n = " \o w.d \o "; " \o Written(b, [d |-> "n", fits |-> TRUE]) \o " x; }", "x", Exp(b, w, FALSE)) :
         pre \in ScopePre, b \in {"int", "float", "bit", "angle"}, w \in ScopedW }
  \cup { DeclCase("constid-nested:" \o pre, pre \o "const int n = " \o w.d \o "; if (true) { " \o Written(b, [d |-> "n", fits |-> TRUE]) \o " x; } }", "x", Exp(b, w, FALSE)) :
         pre \in ScopePre, b \in {"int", "bit"}, w \in ScopedW }
  \cup { DeclCase("constid-outer:" \o pre, "const int n = " \o w.d \o "; " \o pre \o Written(b, [d |-> "n", fits |-> TRUE]) \o " x; }", "x", Exp(b, w, FALSE)) :
         pre \in ScopePre, b \in {"int", "bit"}, w \in ScopedW }
  \cup { DeclCase("constid-param", "def f(int a) { const int n = " \o w.d \o "; " \o Written(b, [d |-> "n", fits |-> TRUE]) \o " x; }", "x", Exp(b, w, FALSE)) :
         b \in {"int", "bit"}, w \in ScopedW }
(* two constants of the same name in nested scopes, both used as designator with the SAME spelling: each use *)
(* sees the innermost one that is in scope at that point                                                    *)
W4 == [d |-> "4", fits |-> TRUE]   W8b == [d |-> "8", fits |-> TRUE]
ShadowConstIdCases ==
     { DeclCase("constid-shadow-inner:" \o pre, "const int n = 4; " \o Written(b, [d |-> "n", fits |-> TRUE]) \o " y; " \o pre \o "const int n = 8; "
                  \o Written(b, [d |-> "n", fits |-> TRUE]) \o " x; }", "x", Exp(b, W8b, FALSE)) : pre \in ScopePre, b \in {"int", "bit", "float"} }
  \cup { DeclCase("constid-shadow-after:" \o pre, "const int n = 4; " \o pre \o "const int n = 8; " \o Written(b, [d |-> "n", fits |-> TRUE]) \o " y; } "
                  \o Written(b, [d |-> "n", fits |-> TRUE]) \o " x;", "x", Exp(b, W4, FALSE)) : pre \in ScopePre, b \in {"int", "bit", "float"} }
  \cup { DeclCase("constid-siblings", "if (true) { const int n = 4; " \o Written(b, [d |-> "n", fits |-> TRUE]) \o " y; } if (true) { const int n = 8; "
                  \o Written(b, [d |-> "n", fits |-> TRUE]) \o " x; }", "x", Exp(b, W8b, FALSE)) : b \in {"int", "bit", "float"} }
(* scope kinds: the same declaration inside a block / subroutine body *)
ScopeCases   == { DeclCase("scope:" \o pre, pre \o Written(b, w) \o " x; }", "x", Exp(b, w, FALSE)) :
                    pre \in {"if (true) { ", "while (true) { ", "def f() { ", "for int i in [0:1] { "}, b \in {"int", "bit", "float"}, w \in {NoW, [d |-> "16", fits |-> TRUE], [d |-> "4294967296", fits |-> FALSE]} }
(* designators that are not constant non-negative integers must be diagnosed *)
BadDesignators == { [t |-> "-1", why |-> "negative"], [t |-> "2.5", why |-> "non-integer"], [t |-> "m", why |-> "non-constant identifier"],
                    [t |-> "true", why |-> "non-integer"], [t |-> "2+2", why |-> "expression"] }
BadCases     == { [form |-> "bad:" \o bd.why, text |-> "int m = 8; " \o b \o "[" \o bd.t \o "] x;", sym |-> "x",
                   expect |-> [type |-> "", fits |-> FALSE, wd |-> bd.t]] : b \in {"int", "bit", "qubit", "float"}, bd \in BadDesignators }

(* literal designators in every spelling of an integer literal: digit separators, the three base prefixes *)
DesignatorSpellings == { [src |-> "1_6", val |-> "16"], [src |-> "1_0_0", val |-> "100"], [src |-> "0x10", val |-> "16"], [src |-> "0X1_0", val |-> "16"],
                         [src |-> "0b101", val |-> "5"], [src |-> "0o17", val |-> "15"], [src |-> "0_8", val |-> "8"] }
SpellingCases ==
     { DeclCase("spelling", Written(b, [d |-> sp.src, fits |-> TRUE]) \o " x;", "x", Exp(b, [d |-> sp.val, fits |-> TRUE], FALSE)) : sp \in DesignatorSpellings, b \in {"int", "uint", "float", "angle", "bit", "qubit"} }
  \cup { DeclCase("spelling-param", "def f(" \o Written(b, [d |-> sp.src, fits |-> TRUE]) \o " x) { }", "x", Exp(b, [d |-> sp.val, fits |-> TRUE], FALSE)) : sp \in DesignatorSpellings, b \in {"int", "bit"} }
  \cup { DeclCase("spelling-io", "input " \o Written(b, [d |-> sp.src, fits |-> TRUE]) \o " x;", "x", Exp(b, [d |-> sp.val, fits |-> TRUE], FALSE)) : sp \in DesignatorSpellings, b \in {"int", "bit"} }
(* the designator of a parameter type names an EARLIER parameter of the same subroutine (not a constant: diagnosed, whatever *)
(* constant of that name exists outside), or a constant that no parameter hides                                            *)
ParamDesignatorCases ==
     { [form |-> "bad:param-designator-names-parameter", text |-> pre \o "def f(int n, " \o b \o "[n] x) { }", sym |-> "x", expect |-> [type |-> "", fits |-> FALSE, wd |-> "n"]] :
         pre \in {"", "const int n = 4; "}, b \in {"int", "bit", "float"} }
  \cup { DeclCase("param-designator-const", "const int n = 4; def f(int m, " \o Written(b, [d |-> "n", fits |-> TRUE]) \o " x) { }", "x", Exp(b, W4, FALSE)) : b \in {"int", "bit", "float"} }

(* identifiers that are const-typed but carry no integer value: built-in real constants, qubits, gates, subroutines, *)
(* gate angle parameters, constants initialised from a non-constant or a real number - in both orders relative to a  *)
(* constant that has a value                                                                                         *)
BadIdPrograms == { [pre |-> "", id |-> "pi"], [pre |-> "const int n = 4; ", id |-> "pi"], [pre |-> "qubit q; ", id |-> "q"], [pre |-> "const int n = 4; qubit q; ", id |-> "q"],
                   [pre |-> "def h() { } ", id |-> "h"], [pre |-> "gate h a { } const int n = 4; ", id |-> "h"], [pre |-> "int y = 2; const int m = y; ", id |-> "m"],
                   [pre |-> "const int n = 4; int y = 2; const int m = y; ", id |-> "m"], [pre |-> "int y = 2; const int m = y; const int n = 4; ", id |-> "m"],
                   [pre |-> "const float f = 2.5; ", id |-> "f"], [pre |-> "const int n = 4; const float f = 2.5; ", id |-> "f"], [pre |-> "", id |-> "U"], [pre |-> "", id |-> "zz"] }
BadIdCases == { [form |-> "bad:identifier-without-integer-value", text |-> bp.pre \o b \o "[" \o bp.id \o "] x;", sym |-> "x",
                 expect |-> [type |-> "", fits |-> FALSE, wd |-> bp.id]] : bp \in BadIdPrograms, b \in {"int", "bit", "qubit", "float"} }
               \cup { [form |-> "bad:identifier-without-integer-value", text |-> "gate g(t) r { " \o b \o "[t] x; }", sym |-> "x", expect |-> [type |-> "", fits |-> FALSE, wd |-> "t"]] : b \in {"int", "bit"} }

(* ... also when the negative number reaches the designator through a constant, whatever the declared width of the   *)
(* constant (the initializer is then stored with or without a cast)                                                  *)
NegConstCases == { [form |-> "bad:negative-const", text |-> "const " \o ct \o " n = -3; " \o b \o "[n] x;", sym |-> "x",
                    expect |-> [type |-> "", fits |-> FALSE, wd |-> "n"]] : ct \in {"int", "int[8]", "int[32]", "int[64]", "int[128]"}, b \in {"int", "bit", "qubit", "float"} }

(* gate and subroutine signatures up to 4 parameters and 4 qubits *)
Ps == <<"a", "b", "c", "d">>    Qs == <<"q", "r", "s", "t">>
RECURSIVE JoinC(_)
JoinC(q) == IF q = <<>> THEN "" ELSE IF Len(q) = 1 THEN q[1] ELSE q[1] \o ", " \o JoinC(Tail(q))
GateCases == { [form |-> "gate", text |-> "gate g" \o (IF np = 0 THEN "" ELSE "(" \o JoinC(SubSeq(Ps, 1, np)) \o ")") \o " " \o JoinC(SubSeq(Qs, 1, nq)) \o " { }",
                sym |-> "g", expect |-> [type |-> "Gate(" \o ToString(np) \o ", " \o ToString(nq) \o ")", fits |-> TRUE, wd |-> ""],
                params |-> [i \in 1..np |-> [n |-> Ps[i], type |-> "Angle(None, True)"]] \o [i \in 1..nq |-> [n |-> Qs[i], type |-> "Qubit"]]] : np \in 0..4, nq \in 1..4 }
RetT == {[s |-> "", r |-> "Void"], [s |-> " -> int", r |-> "Int(None, True)"], [s |-> " -> bit", r |-> "Bit(True)"], [s |-> " -> float[32]", r |-> "Float(Some(32), True)"],
         [s |-> " -> bit[4]", r |-> "BitArray(D1(4), True)"]}
DefCases == { [form |-> "def", text |-> "def f(" \o JoinC([i \in 1..np |-> "int " \o Ps[i]]) \o ")" \o rt.s \o " { }", sym |-> "f",
               expect |-> [type |-> "SubroutineDef(SubroutineDef { num_params: " \o ToString(np) \o ", return_type: " \o rt.r \o " })", fits |-> TRUE, wd |-> ""],
               params |-> [i \in 1..np |-> [n |-> Ps[i], type |-> "Int(None, False)"]]] : np \in 0..4, rt \in RetT }

(* return type whose designator is a const identifier, with and without a parameter of the same name *)
DefRetCases == { [form |-> "def-ret", text |-> "const int n = 4; def f(int[8] " \o pn \o ", bit b) -> " \o rt.s \o " { }", sym |-> "f",
                  expect |-> [type |-> "SubroutineDef(SubroutineDef { num_params: 2, return_type: " \o rt.r \o " })", fits |-> TRUE, wd |-> ""],
                  params |-> << [n |-> pn, type |-> "Int(Some(8), False)"], [n |-> "b", type |-> "Bit(False)"] >>] :
                  pn \in {"n", "m"}, rt \in {[s |-> "uint[n]", r |-> "UInt(Some(4), True)"], [s |-> "bit[n]", r |-> "BitArray(D1(4), True)"], [s |-> "float[n]", r |-> "Float(Some(4), True)"]} }

(* the standard gate library (OpenQASM 3 stdgates.inc plus the OpenQASM 2 names the front end provides) *)
StdLib == << <<"x", 0, 1>>, <<"y", 0, 1>>, <<"z", 0, 1>>, <<"h", 0, 1>>, <<"s", 0, 1>>, <<"sdg", 0, 1>>, <<"t", 0, 1>>, <<"tdg", 0, 1>>, <<"sx", 0, 1>>, <<"id", 0, 1>>,
             <<"p", 1, 1>>, <<"rx", 1, 1>>, <<"ry", 1, 1>>, <<"rz", 1, 1>>, <<"phase", 1, 1>>, <<"u1", 1, 1>>, <<"u2", 2, 1>>, <<"u3", 3, 1>>,
             <<"cx", 0, 2>>, <<"cy", 0, 2>>, <<"cz", 0, 2>>, <<"ch", 0, 2>>, <<"swap", 0, 2>>, <<"CX", 0, 2>>,
             <<"cp", 1, 2>>, <<"crx", 1, 2>>, <<"cry", 1, 2>>, <<"crz", 1, 2>>, <<"cphase", 1, 2>>, <<"cu", 4, 2>>, <<"ccx", 0, 3>>, <<"cswap", 0, 3>> >>
(* a user gate named like a library gate, defined before or after the include: the listing holds the  *)
(* first definition of that name and every other library gate                                          *)
ListingWith(g, np, nq) == [i \in 1..Len(StdLib) |-> IF StdLib[i][1] = g THEN <<g, np, nq>> ELSE StdLib[i]]
CollisionCases ==
     { [form |-> "collision-before", text |-> "gate " \o StdLib[i][1] \o "(a, b) q, r, s { } include \"stdgates.inc\";",
        listing |-> ListingWith(StdLib[i][1], 2, 3), redecl |-> 1] : i \in 1..Len(StdLib) }
  \cup { [form |-> "collision-after", text |-> "include \"stdgates.inc\"; gate " \o StdLib[i][1] \o "(a, b) q, r, s { }",
        listing |-> StdLib, redecl |-> 1] : i \in 1..Len(StdLib) }
  \cup { [form |-> "collision-none", text |-> "include \"stdgates.inc\"; gate mine(a) q, r { }", listing |-> Append(StdLib, <<"mine", 1, 2>>), redecl |-> 0],
         [form |-> "collision-none", text |-> "gate mine(a) q, r { }", listing |-> << <<"mine", 1, 2>> >>, redecl |-> 0] }

(***************************** C08 rows *************************************)
(* scalar types of the C08 quantifier: 9 base types x widths {none, 8, 32, 64} x const *)
W8 == [d |-> "8", fits |-> TRUE]  W32 == [d |-> "32", fits |-> TRUE]  W64 == [d |-> "64", fits |-> TRUE]
CW == {NoW, W8, W32, W64}
SizedB == {"int", "uint", "float", "angle", "complex"}
ScalarTypes == { [b |-> b, w |-> w] : b \in SizedB, w \in CW } \cup { [b |-> b, w |-> NoW] : b \in {"bit", "bool", "duration"} }
Numeric(t) == t.b \in {"int", "uint", "float", "complex"}
Rank(b) == CASE b \in {"int", "uint"} -> 1 [] b = "float" -> 2 [] b = "complex" -> 3 [] OTHER -> 0
Special == {"bit", "bool", "duration", "angle"}
WNum(w) == CASE w.d = "" -> 1000 [] w.d = "8" -> 8 [] w.d = "32" -> 32 [] w.d = "64" -> 64 [] OTHER -> 1000
(* conversions that must ALWAYS be diagnosed (C08): kind lowered, to/from bit/bool/duration/angle of another   *)
(* kind, width narrowing of a non-constant value                                                               *)
KindDown(T, V) == Numeric(T) /\ Numeric(V) /\ Rank(V.b) > Rank(T.b)
CrossSpecial(T, V) == T.b # V.b /\ (T.b \in Special \/ V.b \in Special)
Narrow(T, V) == T.b = V.b /\ T.b \in SizedB /\ WNum(V.w) > WNum(T.w)
Must(T, V, nonconst) == KindDown(T, V) \/ CrossSpecial(T, V) \/ (nonconst /\ Narrow(T, V))

LitOf(b) == CASE b = "int" -> "5" [] b = "uint" -> "5" [] b = "float" -> "2.5" [] b = "angle" -> "2.5" [] b = "complex" -> "2.5im"
              [] b = "bit" -> "1" [] b = "bool" -> "true" [] b = "duration" -> "10ns"
(* value forms: source prefix (declarations needed), the expression, whether the value is a non-constant *)
Form(f, V) ==
  CASE f = "var"      -> [pre |-> Written(V.b, V.w) \o " v; ", e |-> "v", nonconst |-> TRUE, inner |-> Rendered(V.b, V.w, FALSE)]
    [] f = "constvar" -> [pre |-> "const " \o Written(V.b, V.w) \o " v = " \o LitOf(V.b) \o "; ", e |-> "v", nonconst |-> FALSE, inner |-> Rendered(V.b, V.w, TRUE)]
    [] f = "arith"    -> [pre |-> Written(V.b, V.w) \o " v; " \o Written(V.b, V.w) \o " u; ", e |-> "(v + u)", nonconst |-> TRUE, inner |-> Rendered(V.b, V.w, FALSE)]
    [] f = "cast"     -> [pre |-> "int k; ", e |-> Written(V.b, V.w) \o "(k)", nonconst |-> FALSE, inner |-> Rendered(V.b, V.w, TRUE)]
    [] f = "call"     -> [pre |-> "def f() -> " \o Written(V.b, V.w) \o " { } ", e |-> "f()", nonconst |-> FALSE, inner |-> Rendered(V.b, V.w, TRUE)]
FormsFor(V) == {"var", "constvar", "cast", "call"} \cup (IF Numeric(V) THEN {"arith"} ELSE {})
Row(stmt, T, tc, V, f) ==
  LET fm == Form(f, V)
      decl == IF stmt = "decl" THEN (IF tc THEN "const " ELSE "") \o Written(T.b, T.w) \o " x = " \o fm.e \o ";"
              ELSE Written(T.b, T.w) \o " x; x = " \o fm.e \o ";"
  IN [stmt |-> stmt, form |-> f, pre |-> fm.pre, text |-> fm.pre \o decl, target |-> Rendered(T.b, T.w, tc), value |-> fm.inner,
      must |-> Must(T, V, fm.nonconst), tb |-> T.b, vb |-> V.b, tw |-> T.w.d, vw |-> V.w.d]
Rows == { Row("decl", T, tc, V, f) : T \in ScalarTypes, tc \in BOOLEAN, V \in ScalarTypes, f \in {"var", "constvar", "arith", "cast", "call"} }
RowsOK == { r \in UNION { { Row(st, T, tc, V, f) : f \in FormsFor(V) } : st \in {"decl", "assign"}, T \in ScalarTypes, tc \in BOOLEAN, V \in ScalarTypes } :
             ~(r.stmt = "assign" /\ r.target \in {Rendered(T.b, T.w, TRUE) : T \in ScalarTypes}) }

(* literal rows: literal class -> required literal type (base, const) and must-diagnose targets *)
Lits == { [t |-> "5", cls |-> "int", base |-> "Int", neg |-> FALSE], [t |-> "-5", cls |-> "int", base |-> "Int", neg |-> TRUE],
          [t |-> "2.5", cls |-> "float", base |-> "Float", neg |-> FALSE], [t |-> "2im", cls |-> "complex", base |-> "Complex", neg |-> FALSE],
          [t |-> "2.5im", cls |-> "complex", base |-> "Complex", neg |-> FALSE], [t |-> "true", cls |-> "bool", base |-> "Bool", neg |-> FALSE],
          [t |-> "-2.5im", cls |-> "complex", base |-> "Complex", neg |-> TRUE], [t |-> "-2.5", cls |-> "float", base |-> "Float", neg |-> TRUE], [t |-> "-2 im", cls |-> "complex", base |-> "Complex", neg |-> TRUE],
          [t |-> "\"0101\"", cls |-> "bit", base |-> "BitArray", neg |-> FALSE], [t |-> "10ns", cls |-> "duration", base |-> "Duration", neg |-> FALSE] }
LitMust(T, l) == \/ (Numeric(T) /\ l.cls \in {"int", "float", "complex"} /\ Rank(l.cls) > Rank(T.b))
                 \/ (T.b = "uint" /\ l.neg)
                 \/ (l.cls # T.b /\ ~(Numeric(T) /\ l.cls \in {"int", "float", "complex"}) /\ ~(T.b = "bit" /\ l.cls = "bit"))
LitRows == { [stmt |-> st, form |-> "lit", pre |-> "", text |-> (IF st = "decl" THEN Written(T.b, T.w) \o " x = " \o l.t \o ";" ELSE Written(T.b, T.w) \o " x; x = " \o l.t \o ";"),
              target |-> Rendered(T.b, T.w, FALSE), value |-> l.base, must |-> LitMust(T, l), tb |-> T.b, vb |-> l.cls, tw |-> T.w.d, vw |-> l.t] :
              st \in {"decl", "assign"}, T \in ScalarTypes, l \in Lits }
(* measurement rows *)
MeasRows == { [stmt |-> st, form |-> "measure", pre |-> "qubit q; ", text |-> "qubit q; " \o (IF st = "decl" THEN Written(T.b, T.w) \o " x = measure q;" ELSE Written(T.b, T.w) \o " x; x = measure q;"),
               target |-> Rendered(T.b, T.w, FALSE), value |-> "Bit(False)", must |-> (T.b # "bit"), tb |-> T.b, vb |-> "bit", tw |-> T.w.d, vw |-> ""] :
               st \in {"decl", "assign"}, T \in ScalarTypes }

(* bit registers: target bit[N], value a register variable / const register / measured qubit register /     *)
(* bit string literal of length M.  Lengths differ => diagnosed or explicitly cast to exactly bit[N].        *)
RegLens == {"1", "2", "3", "8"}
Zeros(d) == CASE d = "1" -> "0" [] d = "2" -> "01" [] d = "3" -> "011" [] d = "8" -> "01100101"
RegForm(f, m) ==
  CASE f = "var"      -> [pre |-> "bit[" \o m \o "] v; ", e |-> "v", inner |-> "BitArray(D1(" \o m \o "), False)"]
    [] f = "constvar" -> [pre |-> "const bit[" \o m \o "] v = \"" \o Zeros(m) \o "\"; ", e |-> "v", inner |-> "BitArray(D1(" \o m \o "), True)"]
    [] f = "measure"  -> [pre |-> "qubit[" \o m \o "] q; ", e |-> "measure q", inner |-> "BitArray(D1(" \o m \o "), False)"]
    [] f = "lit"      -> [pre |-> "", e |-> "\"" \o Zeros(m) \o "\"", inner |-> "BitArray(D1(" \o m \o ")"]
    [] f = "call"     -> [pre |-> "def f() -> bit[" \o m \o "] { } ", e |-> "f()", inner |-> "BitArray(D1(" \o m \o "), True)"]
RegRows == { LET fm == RegForm(f, m)
                 stmt == IF st = "decl" THEN (IF tc THEN "const " ELSE "") \o "bit[" \o n \o "] x = " \o fm.e \o ";" ELSE "bit[" \o n \o "] x; x = " \o fm.e \o ";"
             IN [stmt |-> st, form |-> f, pre |-> fm.pre, text |-> fm.pre \o stmt, target |-> "BitArray(D1(" \o n \o "), " \o CStr(tc) \o ")", value |-> fm.inner,
                 must |-> FALSE, tb |-> "bit[]", vb |-> "bit[]", tw |-> n, vw |-> m] :
             st \in {"decl", "assign"}, tc \in BOOLEAN, n \in RegLens, m \in RegLens, f \in {"var", "constvar", "measure", "lit", "call"} }
RegRowsOK == { r \in RegRows : ~(r.stmt = "assign" /\ r.target \in {"BitArray(D1(" \o n \o "), True)" : n \in RegLens}) }

(* the common type of two numeric operand types (requirement level): the type of the operand of the higher   *)
(* kind (int, uint < float < complex); for equal kinds the greater width, an unwritten width being the       *)
(* greatest.  int with uint has no common type in this front end (recorded finding), "" = not constrained.   *)
MaxW(a, b) == IF a.d = "" \/ b.d = "" THEN NoW ELSE IF WNum(a) >= WNum(b) THEN a ELSE b
Common(A, B) == IF A.b = B.b THEN Rendered(A.b, MaxW(A.w, B.w), FALSE)
                ELSE IF Rank(A.b) > Rank(B.b) THEN Rendered(A.b, A.w, FALSE)
                ELSE IF Rank(B.b) > Rank(A.b) THEN Rendered(B.b, B.w, FALSE) ELSE ""
(* measurement of a SLICE or index SET of a register: several qubits are measured, so the value is a bit register, never a single bit *)
IdxMeasRows == { [stmt |-> st, form |-> "measure-slice", pre |-> "qubit[3] q; ", text |-> "qubit[3] q; " \o (IF st = "decl" THEN tt.w \o " x = measure q" \o ix \o ";" ELSE tt.w \o " x; x = measure q" \o ix \o ";"),
                  target |-> tt.r, value |-> "BitArray(", must |-> FALSE, tb |-> "bit[]", vb |-> "bit[]", tw |-> tt.w, vw |-> ix] :
                  st \in {"decl", "assign"}, ix \in {"[0:1]", "[{0, 2}]", "[0:2]"},
                  tt \in { [w |-> "bit", r |-> "Bit(False)"], [w |-> "bit[2]", r |-> "BitArray(D1(2), False)"], [w |-> "bit[3]", r |-> "BitArray(D1(3), False)"] } }

(* arithmetic expressions: every operator over every pair of numeric operand types *)
ArithOps == {"+", "-", "*", "/", "%", "&", "|", "^", "<<", ">>"}
NumTypes == { T \in ScalarTypes : Numeric(T) }
ArithRows == { [op |-> o, text |-> Written(A.b, A.w) \o " a; " \o Written(B.b, B.w) \o " b; a " \o o \o " b;",
                lt |-> Rendered(A.b, A.w, FALSE), rt |-> Rendered(B.b, B.w, FALSE), lform |-> "var", rform |-> "var", common |-> Common(A, B),
                intdiv |-> (o = "/" /\ Rank(A.b) = 1 /\ Rank(B.b) = 1)] : o \in ArithOps, A \in NumTypes, B \in NumTypes }

(* the same with the operands given in other forms: explicit cast, const variable, call, literal.  The     *)
(* statement is parenthesised: a statement that starts with a type keyword is a declaration.              *)
W128 == [d |-> "128", fits |-> TRUE]
WNum2(w) == IF w.d = "128" THEN 128 ELSE WNum(w)
MaxW2(a, b) == IF a.d = "" \/ b.d = "" THEN NoW ELSE IF WNum2(a) >= WNum2(b) THEN a ELSE b
Common2(A, B) == IF A.b = B.b THEN Rendered(A.b, MaxW2(A.w, B.w), FALSE)
                 ELSE IF Rank(A.b) > Rank(B.b) THEN Rendered(A.b, A.w, FALSE)
                 ELSE IF Rank(B.b) > Rank(A.b) THEN Rendered(B.b, B.w, FALSE) ELSE ""
Operand(f, T, nm) ==
  CASE f = "var"      -> [pre |-> Written(T.b, T.w) \o " " \o nm \o "; ", e |-> nm, ty |-> Rendered(T.b, T.w, FALSE), T |-> T]
    [] f = "constvar" -> [pre |-> "const " \o Written(T.b, T.w) \o " " \o nm \o " = " \o LitOf(T.b) \o "; ", e |-> nm, ty |-> Rendered(T.b, T.w, TRUE), T |-> T]
    [] f = "cast"     -> [pre |-> "int k" \o nm \o "; ", e |-> Written(T.b, T.w) \o "(k" \o nm \o ")", ty |-> Rendered(T.b, T.w, TRUE), T |-> T]
    [] f = "call"     -> [pre |-> "def f" \o nm \o "() -> " \o Written(T.b, T.w) \o " { } ", e |-> "f" \o nm \o "()", ty |-> Rendered(T.b, T.w, TRUE), T |-> T]
    [] f = "lit"      -> IF T.b = "float" THEN [pre |-> "", e |-> "2.5", ty |-> "Float(Some(64), True)", T |-> [b |-> "float", w |-> W64]]
                                          ELSE [pre |-> "", e |-> "5", ty |-> "Int(Some(128), True)", T |-> [b |-> "int", w |-> W128]]
FormPairs == { <<"cast", "var">>, <<"var", "cast">>, <<"constvar", "var">>, <<"var", "call">>, <<"cast", "cast">>, <<"constvar", "constvar">> }
LitTypes == { [b |-> "int", w |-> NoW], [b |-> "float", w |-> NoW] }
ArithFormRows ==
     { LET l == Operand(fp[1], A, "a")  r == Operand(fp[2], B, "b")
       IN [op |-> o, text |-> l.pre \o r.pre \o "(" \o l.e \o " " \o o \o " " \o r.e \o ");", lt |-> l.ty, rt |-> r.ty, lform |-> fp[1], rform |-> fp[2],
           common |-> Common2(A, B), intdiv |-> (o = "/" /\ Rank(A.b) = 1 /\ Rank(B.b) = 1)] :
       o \in ArithOps, A \in NumTypes, B \in NumTypes, fp \in FormPairs }
  \cup { LET l == Operand("var", A, "a")  r == Operand("lit", L, "b")
       IN [op |-> o, text |-> l.pre \o "(" \o l.e \o " " \o o \o " " \o r.e \o ");", lt |-> l.ty, rt |-> r.ty, lform |-> "var", rform |-> "lit",
           common |-> Common2(A, r.T), intdiv |-> (o = "/" /\ Rank(A.b) = 1 /\ Rank(r.T.b) = 1)] :
       o \in ArithOps, A \in NumTypes, L \in LitTypes }
  \cup { LET l == Operand("lit", L, "a")  r == Operand("var", B, "b")
       IN [op |-> o, text |-> r.pre \o "(" \o l.e \o " " \o o \o " " \o r.e \o ");", lt |-> l.ty, rt |-> r.ty, lform |-> "lit", rform |-> "var",
           common |-> Common2(l.T, B), intdiv |-> (o = "/" /\ Rank(l.T.b) = 1 /\ Rank(B.b) = 1)] :
       o \in ArithOps, B \in NumTypes, L \in LitTypes }

C09Cases == PlainCases \cup ConstCases \cup ConstRegCases \cup InitCases \cup QubitCases \cup IOCases \cup ForCases \cup ParamCases \cup ConstIdCases \cup ScopedConstIdCases \cup ShadowConstIdCases \cup ScopeCases \cup BadCases \cup SpellingCases \cup ParamDesignatorCases \cup BadIdCases \cup NegConstCases
ASSUME \A x \in C09Cases : PrintT(<<"DECL", ToJson(x)>>)
ASSUME \A x \in GateCases \cup DefCases \cup DefRetCases : PrintT(<<"SIG", ToJson(x)>>)
ASSUME \A x \in CollisionCases : PrintT(<<"LISTING", ToJson(x)>>)
ASSUME \A x \in RowsOK \cup LitRows \cup MeasRows \cup RegRowsOK \cup IdxMeasRows : PrintT(<<"ROW", ToJson(x)>>)
ASSUME \A x \in ArithRows \cup ArithFormRows : PrintT(<<"ARITH", ToJson(x)>>)

VARIABLE v
Init == v = 0
Next == v' = v
Spec == Init /\ [][Next]_v
=============================================================================
