SPECIFICATION Spec
