SPECIFICATION Spec
CONSTANTS MaxDepth = 4
INVARIANTS GatingHolds Emit
PROPERTY Terminates
CHECK_DEADLOCK FALSE
