------------------------------ MODULE Pipeline ------------------------------
(***************************************************************************)
(* Machine spec (M) of the staged pipeline, one action per stage, as in      *)
(*   oq3_syntax::SourceFile::parse_check_lex  (Lex, Parse, Validate)         *)
(*   oq3_source_file::parse_source_and_includes / parse_included_files       *)
(*   SourceTrait::have_syntax_errors (recursive over included files)         *)
(*   oq3_semantics::analyze_source / syntax_to_semantic                      *)
(* over an include chain with one fault class per file (see Gating).         *)
(***************************************************************************)
EXTENDS Naturals, Sequences, FiniteSets, TLC, Json

CONSTANT MaxDepth

R == INSTANCE Gating

VARIABLES chain,   \* the configuration (chosen in Init)
          cur,     \* file being processed by the front end (1..Len+1)
          stage,   \* "lex" "parse" "validate" "includes" "gate" "analyze" "done"
          tree,    \* tree[i] : file i has a tree
          lexerr, synerr,   \* diagnostics per file
          read,    \* files actually read
          program, semerr   \* result of analysis
vars == <<chain, cur, stage, tree, lexerr, synerr, read, program, semerr>>

Chains == UNION { [1..n -> R!Faults] : n \in 1..MaxDepth }

Init ==
  /\ chain \in Chains
  /\ cur = 1 /\ stage = "lex"
  /\ tree = [i \in 1..Len(chain) |-> FALSE]
  /\ lexerr = [i \in 1..Len(chain) |-> FALSE]
  /\ synerr = [i \in 1..Len(chain) |-> FALSE]
  /\ read = [i \in 1..Len(chain) |-> FALSE]
  /\ program = "none" /\ semerr = FALSE

(* LexedStr::new; parse_text_check_lex returns (None, lexer errors) on lexical errors *)
Lex ==
  /\ stage = "lex"
  /\ read' = [read EXCEPT ![cur] = TRUE]
  /\ IF chain[cur] = "lex"
       THEN /\ lexerr' = [lexerr EXCEPT ![cur] = TRUE]
            /\ stage' = "gate"           \* no tree: includes of this file are never looked at
            /\ UNCHANGED <<tree, synerr>>
       ELSE /\ stage' = "parse" /\ UNCHANGED <<lexerr, tree, synerr>>
  /\ UNCHANGED <<chain, cur, program, semerr>>

(* TopEntryPoint::SourceFile.parse + build_tree *)
Parse ==
  /\ stage = "parse"
  /\ tree' = [tree EXCEPT ![cur] = TRUE]
  /\ synerr' = [synerr EXCEPT ![cur] = (chain[cur] = "syn")]
  /\ stage' = "validate"
  /\ UNCHANGED <<chain, cur, lexerr, read, program, semerr>>

(* validation::validate *)
Validate ==
  /\ stage = "validate"
  /\ synerr' = [synerr EXCEPT ![cur] = @ \/ chain[cur] = "val"]
  /\ stage' = "includes"
  /\ UNCHANGED <<chain, cur, tree, lexerr, read, program, semerr>>

(* parse_included_files: only when have_parse; recursion = next file of the chain *)
Includes ==
  /\ stage = "includes"
  /\ IF cur < Len(chain) THEN cur' = cur + 1 /\ stage' = "lex"
                         ELSE cur' = cur /\ stage' = "gate"
  /\ UNCHANGED <<chain, tree, lexerr, synerr, read, program, semerr>>

(* analyze_source: have_syntax_errors() over the source and all included files *)
HaveSyntaxErrors == \E i \in 1..Len(chain) : read[i] /\ (lexerr[i] \/ synerr[i])

Gate ==
  /\ stage = "gate"
  /\ IF HaveSyntaxErrors
       THEN program' = "empty" /\ stage' = "done" /\ UNCHANGED semerr
       ELSE stage' = "analyze" /\ UNCHANGED <<program, semerr>>
  /\ UNCHANGED <<chain, cur, tree, lexerr, synerr, read>>

Analyze ==
  /\ stage = "analyze"
  /\ program' = "analysed"
  /\ semerr' = (\E i \in 1..Len(chain) : chain[i] = "sem")
  /\ stage' = "done"
  /\ UNCHANGED <<chain, cur, tree, lexerr, synerr, read>>

Next == Lex \/ Parse \/ Validate \/ Includes \/ Gate \/ Analyze
Spec == Init /\ [][Next]_vars /\ WF_vars(Next)

(***************************************************************************)
(* M |= R : at the end the observation is the one Gating requires.           *)
(***************************************************************************)
Req == R!Required(chain)
GatingHolds ==
  stage = "done" =>
    /\ \A i \in 1..Len(chain) :
         /\ read[i] = Req.reached[i]
         /\ tree[i] = Req.trees[i]
         /\ (read[i] => (tree[i] <=> ~lexerr[i]))          \* tree iff no lexical diagnostic
         /\ (lexerr[i] => ~synerr[i])                        \* without a tree only lexical diagnostics
         /\ (tree[i] => (synerr[i] = Req.synonly[i]))
    /\ (program = "empty") = Req.gated
    /\ (program = "empty" => ~semerr)
    /\ (program = "analysed") = Req.analysed
    /\ semerr = Req.semdiag
Terminates == <>(stage = "done")

(* B1: one CASE per configuration with the required observation *)
Emit == stage = "done" => PrintT(<<"CASE", ToJson([chain |-> chain, req |-> Req])>>)
=============================================================================
