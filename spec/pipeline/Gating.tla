------------------------------- MODULE Gating -------------------------------
(***************************************************************************)
(* Requirement spec (R), gating half of C11, over an include chain          *)
(*   file 1 (main) includes file 2 includes ... file N                      *)
(* where every file carries one fault class:                                *)
(*   "none"  clean                     "lex"  a malformed lexeme            *)
(*   "syn"   a syntax error (tokens fine)   "val"  a validation error       *)
(*   "sem"   a semantic error only                                          *)
(* Statement: the lex-checked parse of a file returns a tree iff the file    *)
(* has no lexical diagnostic, and then all its diagnostics are syntactic;    *)
(* analysis yields an empty program and no semantic diagnostics whenever the *)
(* source or any included file has any syntax diagnostic, and runs otherwise.*)
(***************************************************************************)
EXTENDS Naturals, Sequences

Faults == {"none", "lex", "syn", "val", "sem"}

(* A file is reached (read and lexed) iff every file before it in the chain  *)
(* produced a tree - a file without a tree has no include statements to      *)
(* follow.                                                                   *)
Reached(chain, i) == \A j \in 1..(i - 1) : chain[j] # "lex"

HasTree(chain, i)    == Reached(chain, i) /\ chain[i] # "lex"
LexDiag(chain, i)    == Reached(chain, i) /\ chain[i] = "lex"
SyntaxDiag(chain, i) == Reached(chain, i) /\ chain[i] \in {"syn", "val"}
AnyDiagBeforeAnalysis(chain) == \E i \in 1..Len(chain) : LexDiag(chain, i) \/ SyntaxDiag(chain, i)

(* Required observation *)
Required(chain) ==
  [ trees    |-> [i \in 1..Len(chain) |-> HasTree(chain, i)],
    reached  |-> [i \in 1..Len(chain) |-> Reached(chain, i)],
    lexonly  |-> [i \in 1..Len(chain) |-> LexDiag(chain, i)],   \* only lexical diagnostics, no tree
    synonly  |-> [i \in 1..Len(chain) |-> SyntaxDiag(chain, i)],\* a tree and only syntactic diagnostics
    gated    |-> AnyDiagBeforeAnalysis(chain),                    \* empty program, no semantic diagnostics
    analysed |-> ~AnyDiagBeforeAnalysis(chain),
    semdiag  |-> ~AnyDiagBeforeAnalysis(chain) /\ \E i \in 1..Len(chain) : chain[i] = "sem" ]
=============================================================================
