SPECIFICATION Spec
CONSTANTS
  Mode = "sim"
  MaxLen = 7
  SepChoice = {0,1,2,3,4,5,6,7,8,9,10,11}
  MaxBad = 2
INVARIANT Emit
CHECK_DEADLOCK FALSE
