----------------------------- MODULE LexemeGen -----------------------------
(* Generator of lexeme sequences (B1 for C15, C11): every behaviour builds a  *)
(* sequence of lexemes with separators allowed by Lexemes and prints it as    *)
(* one CASE line when it finishes.  Modes:                                    *)
(*   "pairs"  exhaustive: every ordered pair of pool lexemes with every       *)
(*            admissible separator (and juxtaposed when allowed)              *)
(*   "sim"    random sequences up to MaxLen (run with -simulate)              *)
EXTENDS Lexemes, Json

CONSTANTS Mode, MaxLen, MaxBad, SepChoice

VARIABLES seq,    \* sequence of [l |-> lexeme index, s |-> separator index placed BEFORE it (0 none)]
          fin     \* finished
vars == <<seq, fin>>

Init == seq = <<>> /\ fin = FALSE

LastLex == Pool[seq[Len(seq)].l]
NumBad == Cardinality({i \in 1..Len(seq) : Pool[seq[i].l].bad})

CanFollow(i, s) ==
  IF seq = <<>> THEN s = NoSep
  ELSE /\ ~EndsInput(LastLex)
       /\ IF s = NoSep THEN JuxtOK(LastLex, Pool[i]) ELSE SepOK(LastLex, s, Pool[i])

Add ==
  /\ ~fin /\ Len(seq) < MaxLen
  /\ \E i \in 1..NP, s \in SepChoice :
       /\ CanFollow(i, s)
       /\ (Pool[i].bad => NumBad < MaxBad)
       /\ seq' = Append(seq, [l |-> i, s |-> s])
  /\ fin' = FALSE

(* a version header must be followed by ";" or white space: it cannot end the input *)
Finish == ~fin /\ seq # <<>> /\ LastLex.last # "ver" /\ fin' = TRUE /\ UNCHANGED seq

Next == Add \/ Finish
Spec == Init /\ [][Next]_vars

(* One line per finished behaviour: the sequence as indices into the pool   *)
(* and the separator table, which are printed once (POOL, SEPS).             *)
Emit == fin => PrintT(<<"CASE", ToJson(seq)>>)

ASSUME PrintT(<<"POOL", ToJson(Pool)>>)
ASSUME PrintT(<<"SEPS", ToJson(Seps)>>)

PairsConstraint == Mode = "pairs" => Len(seq) <= 2
=============================================================================
