------------------------------ MODULE Lexemes ------------------------------
(***************************************************************************)
(* Requirement spec (R) for C15 and the lexical half of C11: the OpenQASM 3  *)
(* lexical grammar as a pool of lexeme descriptors, the rule saying when two *)
(* adjacent lexemes must be separated, the separator flavours, and the       *)
(* expected observation for a sequence of lexemes.  Written from the         *)
(* OpenQASM 3 language description, not from the lexer.                      *)
(*                                                                         *)
(* A lexeme is [cls, kind, text, bad, first, last] where                    *)
(*   cls   class: "kw" "type" "ident" "hw" "int" "hexint" "float" "unit"    *)
(*         "bits" "str" "punct" "lcomment" "bcomment" "pragma" "annot"      *)
(*         "version" "dim" and the malformed classes "m_*"                  *)
(*   kind  the SyntaxKind name the token table must show ("-" for comments, *)
(*         which are trivia)                                                *)
(*   text  exact text; %%XXXX; stands for the code point U+XXXX (TLC cannot  *)
(*         print non-ASCII text; the harness expands it)                    *)
(*   bad   TRUE for a malformed lexeme (must be diagnosed, C11)             *)
(*   first,last  character class of the first / last character:            *)
(*         "w" identifier character that is not a digit, "d" digit,         *)
(*         "dot" "slash" "star" "quote" "at" "dollar" "o" (other)           *)
(***************************************************************************)
EXTENDS Naturals, Sequences, FiniteSets, TLC

L(cls, kind, text, first, last) ==
  [cls |-> cls, kind |-> kind, text |-> text, bad |-> FALSE, first |-> first, last |-> last]
B(cls, kind, text, first, last) ==
  [cls |-> cls, kind |-> kind, text |-> text, bad |-> TRUE, first |-> first, last |-> last]

Kw(t, k) == L("kw", k, t, "w", "w")
Ty(t, k) == L("type", k, t, "w", "w")
Id(t)    == L("ident", "IDENT", t, "w", "w")
P(t, k)  == L("punct", k, t, "o", "o")

Keywords == <<
  Kw("barrier", "BARRIER_KW"), Kw("box", "BOX_KW"), Kw("cal", "CAL_KW"), Kw("const", "CONST_KW"),
  Kw("def", "DEF_KW"), Kw("defcal", "DEFCAL_KW"), Kw("defcalgrammar", "DEFCALGRAMMAR_KW"),
  Kw("delay", "DELAY_KW"), Kw("extern", "EXTERN_KW"), Kw("gate", "GATE_KW"), Kw("gphase", "GPHASE_KW"),
  Kw("include", "INCLUDE_KW"), Kw("let", "LET_KW"), Kw("measure", "MEASURE_KW"), Kw("dim", "DIM_KW"),
  Kw("reset", "RESET_KW"), Kw("break", "BREAK_KW"), Kw("case", "CASE_KW"), Kw("continue", "CONTINUE_KW"),
  Kw("default", "DEFAULT_KW"), Kw("else", "ELSE_KW"), Kw("end", "END_KW"), Kw("for", "FOR_KW"),
  Kw("if", "IF_KW"), Kw("in", "IN_KW"), Kw("return", "RETURN_KW"), Kw("switch", "SWITCH_KW"),
  Kw("while", "WHILE_KW"), Kw("array", "ARRAY_KW"), Kw("creg", "CREG_KW"), Kw("input", "INPUT_KW"),
  Kw("mutable", "MUTABLE_KW"), Kw("output", "OUTPUT_KW"), Kw("qreg", "QREG_KW"), Kw("qubit", "QUBIT_KW"),
  Kw("readonly", "READONLY_KW"), Kw("void", "VOID_KW"), Kw("ctrl", "CTRL_KW"), Kw("inv", "INV_KW"),
  Kw("negctrl", "NEGCTRL_KW"), Kw("pow", "POW_KW"), Kw("false", "FALSE_KW"), Kw("true", "TRUE_KW") >>

TypeNames == <<
  Ty("angle", "ANGLE_TY"), Ty("bit", "BIT_TY"), Ty("bool", "BOOL_TY"), Ty("complex", "COMPLEX_TY"),
  Ty("duration", "DURATION_TY"), Ty("float", "FLOAT_TY"), Ty("int", "INT_TY"), Ty("stretch", "STRETCH_TY"),
  Ty("uint", "UINT_TY") >>

(* identifiers: ASCII, underscores, digits inside, near-keywords, Greek, CJK, accented, built-in constants *)
Identifiers == <<
  Id("a"), Id("x1"), Id("_"), Id("_a"), Id("a_b_"), Id("__"), Id("q0"), Id("Int"), Id("ifx"), Id("xif"),
  Id("inta"), Id("bits"), Id("OPENQASM3"), Id("O"), Id("OPEN"), Id("pragmatic"), Id("p"), Id("pr"), Id("e3"), Id("E"),
  Id("b1"), Id("x_"), Id("dtx"), Id("sx"), Id("im2"),
  Id("%%03C0;"), Id("%%03C4;au"), Id("%%2107;"), Id("a%%03B8;1"), Id("%%5909;%%6570;"), Id("caf%%00E9;") >>
Underscore == << L("punct", "UNDERSCORE", "_", "w", "w") >>   \* a lone underscore has its own kind
IdentifiersOK == SelectSeq(Identifiers, LAMBDA l : l.text # "_")

HwQubits == << L("hw", "HARDWAREIDENT", "$0", "dollar", "d"), L("hw", "HARDWAREIDENT", "$17", "dollar", "d") >>

I(t, last) == L("int", "INT_NUMBER", t, "d", last)
H(t, last) == L("hexint", "INT_NUMBER", t, "d", last)
Integers == <<
  I("0", "d"), I("7", "d"), I("10", "d"), I("1_000", "d"), I("0_7", "d"), I("00", "d"),
  I("340282366920938463463374607431768211455", "d"),
  H("0b0", "d"), H("0b101", "d"), H("0B11", "d"), H("0b1_0", "d"),
  H("0o17", "d"), H("0O7", "d"), H("0o1_7", "d"),
  H("0xff", "w"), H("0XfF", "w"), H("0xe", "w"), H("0x1e3", "d"), H("0xbad", "w"), H("0xD_E", "w"), H("0x0", "d") >>

F(t, last) == L("float", "FLOAT_NUMBER", t, "d", last)
Floats == <<
  F("1.", "dot"), F("1.5", "d"), F("0.0", "d"), F("1e3", "d"), F("1E-3", "d"), F("1.5e+3", "d"), F("1.e3", "d"),
  F("1e+3", "d"), F("2E+1_0", "d"), F("7e-2", "d"), F("1.E+3", "d"),
  F("1_0.5_0", "d"), F("0e0", "d"), F("12.e-1_0", "d"),
  (* integer part exactly "0" (the path that also decides the base prefixes 0b / 0o / 0x) *)
  F("0E3", "d"), F("0E-3", "d"), F("0e+1", "d"), F("0.E3", "d"), F("0.5", "d"), F("0.", "dot"), F("00E3", "d"),
  L("float", "FLOAT_NUMBER", ".5", "dot", "d"), L("float", "FLOAT_NUMBER", ".5e3", "dot", "d"),
  L("float", "FLOAT_NUMBER", ".0_1E+2", "dot", "d") >>

U(t) == L("unit", "IDENT", t, "w", "w")
Units == << U("dt"), U("ns"), U("us"), U("%%00B5;s"), U("ms"), U("s"), U("im") >>

Bits == <<
  L("bits", "BIT_STRING", "\"0\"", "quote", "quote"), L("bits", "BIT_STRING", "\"0101\"", "quote", "quote"),
  L("bits", "BIT_STRING", "\"1_0\"", "quote", "quote"), L("bits", "BIT_STRING", "'01'", "quote", "quote"),
  (* several separators: single underscores between digits are well formed however many there are *)
  L("bits", "BIT_STRING", "\"0_1_0\"", "quote", "quote"), L("bits", "BIT_STRING", "\"1_0_1_1\"", "quote", "quote"),
  L("bits", "BIT_STRING", "'0_1_0'", "quote", "quote"), L("bits", "BIT_STRING", "\"0000_1111_0000\"", "quote", "quote") >>
Strings == <<
  L("str", "STRING", "\"abc\"", "quote", "quote"), L("str", "STRING", "\"stdgates.inc\"", "quote", "quote"),
  L("str", "STRING", "'x y'", "quote", "quote"), L("str", "STRING", "\"a\\\"b\"", "quote", "quote"),
  L("str", "STRING", "\"%%00E9;%%1F600;\"", "quote", "quote"), L("str", "STRING", "\"0 1\"", "quote", "quote"),
  L("str", "STRING", "\"// no comment\"", "quote", "quote"), L("str", "STRING", "\"it's\"", "quote", "quote"),
  L("str", "STRING", "'a\\'b'", "quote", "quote"), L("str", "STRING", "'say \"hi\"'", "quote", "quote"), L("str", "STRING", "\"a\\\\\"", "quote", "quote") >>

Puncts == <<
  P("!", "BANG"), P("%", "PERCENT"), P("&", "AMP"), P("(", "L_PAREN"), P(")", "R_PAREN"),
  L("punct", "STAR", "*", "star", "star"), P("+", "PLUS"), P(",", "COMMA"), P("-", "MINUS"),
  L("punct", "DOT", ".", "dot", "dot"), L("punct", "SLASH", "/", "slash", "slash"), P(":", "COLON"),
  P(";", "SEMICOLON"), P("<", "L_ANGLE"), P("=", "EQ"), P(">", "R_ANGLE"), P("?", "QUESTION"),
  L("punct", "AT", "@", "at", "at"), P("[", "L_BRACK"), P("]", "R_BRACK"), P("^", "CARET"), P("{", "L_CURLY"),
  P("|", "PIPE"), P("}", "R_CURLY"), P("~", "TILDE"), L("punct", "DOLLAR", "$", "dollar", "dollar") >>

LineLexemes == <<
  L("lcomment", "-", "// a comment", "slash", "eol"), L("lcomment", "-", "//", "slash", "eol"),
  L("lcomment", "-", "/// doc \" ' /* ", "slash", "eol"),
  L("pragma", "PRAGMA", "pragma foo bar", "w", "eol"), L("pragma", "PRAGMA", "#pragma x \"y", "o", "eol"),
  L("pragma", "PRAGMA", "pragma\t1", "w", "eol"),
  L("annot", "ANNOTATION", "@bind x y", "at", "eol"), L("annot", "ANNOTATION", "@a", "at", "eol") >>
BlockComments == <<
  L("bcomment", "-", "/* c */", "slash", "slash"), L("bcomment", "-", "/**/", "slash", "slash"),
  L("bcomment", "-", "/* a /* nested */ b */", "slash", "slash"), L("bcomment", "-", "/* \" ' // */", "slash", "slash") >>
Others == <<
  L("dim", "DIM_KW", "#dim", "o", "w"),
  L("version", "VERSION_STRING", "OPENQASM 3", "w", "ver"), L("version", "VERSION_STRING", "OPENQASM 3.0", "w", "ver"),
  L("version", "VERSION_STRING", "OPENQASM  3.1", "w", "ver"), L("version", "VERSION_STRING", "OPENQASM\t2.0", "w", "ver") >>

(* The malformed classes of C11.  expected: >= 1 lexical diagnostic on a token overlapping it. *)
(* "rest" lexemes swallow the rest of the input.                                            *)
Malformed == <<
  B("m_str", "STRING", "\"abc", "quote", "rest"), B("m_str", "STRING", "'abc", "quote", "rest"),
  B("m_str", "STRING", "\"", "quote", "rest"),
  B("m_str", "STRING", "'abc\\'", "quote", "rest"), B("m_str", "STRING", "\"abc\\\"", "quote", "rest"), B("m_str", "STRING", "'\\'", "quote", "rest"),
  B("m_bits", "BIT_STRING", "\"01", "quote", "rest"), B("m_bits", "BIT_STRING", "\"0__1", "quote", "rest"),
  B("m_bcomment", "-", "/* abc", "slash", "rest"), B("m_bcomment", "-", "/* a /* b */", "slash", "rest"),
  B("m_base", "INT_NUMBER", "0b", "d", "w"), B("m_base", "INT_NUMBER", "0o", "d", "w"),
  B("m_base", "INT_NUMBER", "0x", "d", "w"), B("m_base", "INT_NUMBER", "0b_", "d", "w"),
  B("m_base", "INT_NUMBER", "0B", "d", "w"), B("m_base", "INT_NUMBER", "0O", "d", "w"),
  B("m_base", "INT_NUMBER", "0X", "d", "w"),
  B("m_exp", "FLOAT_NUMBER", "1e", "d", "w"), B("m_exp", "FLOAT_NUMBER", "1.5e+", "d", "o"),
  B("m_exp", "FLOAT_NUMBER", "1.e", "d", "w"), B("m_exp", "FLOAT_NUMBER", "2E-", "d", "o"),
  B("m_exp", "FLOAT_NUMBER", ".5e", "dot", "w"),
  B("m_version", "VERSION_STRING", "OPENQASM x", "w", "w"), B("m_version", "VERSION_STRING", "OPENQASM 3.", "w", "ver"),
  B("m_version", "VERSION_STRING", "OPENQASM 3.x", "w", "w"), B("m_version", "VERSION_STRING", "OPENQASM 3.0a", "w", "w"),
  B("m_ident", "IDENT", "a%%1F600;", "w", "w"), B("m_ident", "IDENT", "%%1F600;b", "o", "w"),
  B("m_ident", "IDENT", "#foo", "o", "w"), B("m_ident", "IDENT", "#", "o", "o"), B("m_ident", "IDENT", "#prag", "o", "w") >>

WellFormed == Keywords \o TypeNames \o IdentifiersOK \o HwQubits \o Integers \o Floats \o Units
              \o Bits \o Strings \o Puncts \o LineLexemes \o BlockComments \o Others
Pool == WellFormed \o Malformed
NWF == Len(WellFormed)
NP  == Len(Pool)

IsNumber(l)  == l.cls \in {"int", "hexint", "float"}
IsDecimal(l) == l.cls \in {"int", "float"}
WordChar(c)  == c \in {"w", "d"}

(***************************************************************************)
(* Separators.  flavour "ws" starts with white space, "nl" starts with a    *)
(* line break, "c" starts with a comment.                                   *)
(***************************************************************************)
Seps == << [t |-> " ", f |-> "ws"], [t |-> "\t", f |-> "ws"], [t |-> "\n", f |-> "nl"],
           [t |-> "  \n ", f |-> "ws"], [t |-> "\n\n", f |-> "nl"], [t |-> " /* c */ ", f |-> "ws"],
           [t |-> "/* c */", f |-> "c"], [t |-> "/* a /* n */ b */", f |-> "c"],
           [t |-> "// c\n", f |-> "c"], [t |-> "\n// c\n", f |-> "nl"], [t |-> " \r\n", f |-> "ws"] >>
NoSep == 0
NS == Len(Seps)

(* Must a and b be separated at all? *)
NeedsSep(a, b) ==
  \/ a.last \in {"eol", "ver"}
  \/ (WordChar(a.last) /\ WordChar(b.first)) /\ ~(IsDecimal(a) /\ a.last = "d" /\ b.cls = "unit")
  \/ (a.last = "dot" /\ IsNumber(a) /\ b.cls = "unit") /\ FALSE     \* "1." followed by a unit: allowed unseparated
  \/ IsNumber(a) /\ b.first = "dot"
  \/ a.last = "dot" /\ b.first = "d"
  \/ a.last = "dot" /\ IsNumber(a) /\ b.first = "w" /\ b.cls # "unit"
  \/ a.last = "slash" /\ b.first \in {"slash", "star"}
  \/ a.text = "@" /\ b.first = "w"
  \/ a.text = "$" /\ b.first = "d"
  \/ a.cls \in {"str", "bits"} /\ b.first = "w"
  \/ a.cls = "dim" /\ WordChar(b.first)
  \/ WordChar(a.last) /\ b.cls = "m_ident"    \* an identifier touching a forbidden character is one malformed identifier
  \/ b.cls = "version"               \* the version header is only recognised at the start of a lexeme
  \* a malformed number / '#' must stay malformed: nothing that would complete it may touch it
  \/ a.cls \in {"m_exp", "m_base", "m_ident"} /\ (WordChar(b.first) \/ b.text \in {"+", "-"})

(* May separator s stand between a and b? *)
SepOK(a, s, b) ==
  /\ (a.last = "eol" => Seps[s].f = "nl")
  /\ (a.last = "ver" => Seps[s].f \in {"ws", "nl"})
  /\ (a.last = "slash" => Seps[s].f # "c")
  /\ (a.text = "pragma" => TRUE)

(* A lexeme that swallows the rest of the input ends the sequence. *)
EndsInput(l) == l.last = "rest"

(* the unseparated juxtaposition "1." "." etc. is fine; but a version header *)
(* may be directly followed only by ";"                                      *)
JuxtOK(a, b) == ~NeedsSep(a, b) \/ (a.last = "ver" /\ b.text = ";")
=============================================================================
