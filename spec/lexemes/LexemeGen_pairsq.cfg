SPECIFICATION Spec
CONSTANTS
  Mode = "pairs"
  MaxLen = 2
  SepChoice = {0,1,3,7,9}
  MaxBad = 1
INVARIANT Emit
CHECK_DEADLOCK FALSE
