------------------------------ MODULE LexTrace ------------------------------
(***************************************************************************)
(* Trace spec / requirement monitors for C14.  One event per lexed text:     *)
(*   len     byte length of the text                                        *)
(*   bounds  the character boundaries of the text (byte offsets, incl. 0,len)*)
(*   toks    the lexer's token stream: [len, lit, ss] (ss = suffix offset of *)
(*           a literal)                                                     *)
(*   starts  start offsets of the parser-facing token table (n+1 entries)    *)
(*   nkinds  number of rows of the table                                     *)
(*   errs    rows carrying a lexical error                                   *)
(*   again   token lengths obtained by lexing the same text a second time    *)
(* An event is consumed only if every clause of C14 holds on it, so a trace  *)
(* is accepted iff the partition property held on every recorded text.       *)
(***************************************************************************)
EXTENDS Naturals, Integers, Sequences, FiniteSets, Json, IOUtils, TLC

Rec == ndJsonDeserialize(IOEnv.TRACE)

RECURSIVE Ends(_, _)
(* sequence of end offsets of the tokens *)
Ends(ts, acc) == IF ts = <<>> THEN <<>> ELSE <<acc + ts[1].len>> \o Ends(Tail(ts), acc + ts[1].len)

SeqToSet(s) == {s[i] : i \in 1..Len(s)}

NonZero(e)      == \A i \in 1..Len(e.toks) : e.toks[i].len >= 1
OnBoundaries(e) == SeqToSet(Ends(e.toks, 0)) \subseteq SeqToSet(e.bounds)
SumIsLen(e)     == LET en == Ends(e.toks, 0) IN
                     IF en = <<>> THEN e.len = 0 ELSE en[Len(en)] = e.len
SuffixInside(e) == \A i \in 1..Len(e.toks) : e.toks[i].lit => e.toks[i].ss <= e.toks[i].len
TableShape(e)   == /\ e.nkinds = Len(e.toks)
                   /\ Len(e.starts) = e.nkinds + 1
                   /\ e.starts[1] = 0
                   /\ e.starts[Len(e.starts)] = e.len
                   /\ \A i \in 1..(Len(e.starts) - 1) : e.starts[i] < e.starts[i + 1]
TableIsStream(e) == \A i \in 1..Len(e.toks) : e.starts[i + 1] - e.starts[i] = e.toks[i].len
SliceOK(e)      == SeqToSet(e.starts) \subseteq SeqToSet(e.bounds)
ErrRowsExist(e) == \A i \in 1..Len(e.errs) : e.errs[i] < e.nkinds
Deterministic(e) == e.again = [i \in 1..Len(e.toks) |-> e.toks[i].len]

Partition(e) == /\ NonZero(e) /\ OnBoundaries(e) /\ SumIsLen(e) /\ SuffixInside(e)
                /\ TableShape(e) /\ TableIsStream(e) /\ SliceOK(e) /\ ErrRowsExist(e) /\ Deterministic(e)

VARIABLE l
Init == l = 1
Lexed == /\ l <= Len(Rec) /\ Rec[l].ev = "lex" /\ Partition(Rec[l]) /\ l' = l + 1
Next == Lexed
Spec == Init /\ [][Next]_l

Accepted ==
  LET d == TLCGet("stats").diameter IN
    IF d - 1 = Len(Rec) THEN TRUE
    ELSE PrintT(<<"REJECT", ToJson([line |-> d])>>) /\ FALSE
=============================================================================
