#!/usr/bin/env python3
"""Collect the repository's own OpenQASM texts (snippet files and strings embedded in tests)."""
import glob, json, os, re, sys


def collect():
    texts = []
    for f in sorted(glob.glob("/repo/crates/**/*.qasm", recursive=True)) + sorted(glob.glob("/repo/crates/**/*.inc", recursive=True)):
        try:
            texts.append(open(f, encoding="utf-8").read())
        except Exception:
            pass
    for f in sorted(glob.glob("/repo/crates/*/tests/**/*.rs", recursive=True)) + sorted(glob.glob("/repo/crates/*/src/tests.rs")) \
            + sorted(glob.glob("/repo/crates/*/src/**/tests.rs", recursive=True)):
        try:
            src = open(f, encoding="utf-8").read()
        except Exception:
            continue
        for m in re.finditer(r'r#"(.*?)"#', src, re.S):
            texts.append(m.group(1))
        for m in re.finditer(r'r"([^"]*)"', src):
            texts.append(m.group(1))
        for m in re.finditer(r'(?<![r#])"((?:[^"\\\n]|\\.)*)"', src):
            s = m.group(1)
            if (";" in s or "{" in s) and len(s) > 3:
                try:
                    texts.append(bytes(s, "utf-8").decode("unicode_escape").encode("latin-1", "ignore").decode("utf-8", "ignore") if "\\" in s else s)
                except Exception:
                    texts.append(s)
    seen = set(); out = []
    for t in texts:
        if t not in seen and len(t) < 65536:
            seen.add(t); out.append(t)
    return out


if __name__ == "__main__":
    c = collect()
    json.dump(c, open(sys.argv[1], "w"))
    print(len(c), "texts", sum(len(t) for t in c), "bytes")
