#!/usr/bin/env python3
"""Collect the repository's own OpenQASM texts (snippet files and strings embedded in tests)."""
import glob, json, os, re, sys


def collect():
    texts = []
    for f in sorted(glob.glob("/repo/crates/**/*.qasm", recursive=True)) + sorted(glob.glob("/repo/crates/**/*.inc", recursive=True)):
        try:
            texts.append(open(f, encoding="utf-8").read())
        except Exception:
            pass
    for f in sorted(glob.glob("/repo/crates/*/tests/**/*.rs", recursive=True)) + sorted(glob.glob("/repo/crates/*/src/tests.rs")) \
            + sorted(glob.glob("/repo/crates/*/src/**/tests.rs", recursive=True)):
        try:
            src = open(f, encoding="utf-8").read()
        except Exception:
            continue
        for m in re.finditer(r'r#"(.*?)"#', src, re.S):
            texts.append(m.group(1))
        for m in re.finditer(r'r"([^"]*)"', src):
            texts.append(m.group(1))
        for m in re.finditer(r'(?<![r#])"((?:[^"\\\n]|\\.)*)"', src):
            s = m.group(1)
            if (";" in s or "{" in s) and len(s) > 3:
                try:
                    texts.append(bytes(s, "utf-8").decode("unicode_escape").encode("latin-1", "ignore").decode("utf-8", "ignore") if "\\" in s else s)
                except Exception:
                    texts.append(s)
    # edge positions: characters with a special role somewhere in a tool chain (byte-order mark, NUL, line and paragraph
    # separators, no-break and zero-width blanks, a combining mark, a 4-byte character, CR, the replacement character) at the
    # very start and the very end of short programs, alone and doubled
    specials = ["\ufeff", "\x00", "\u2028", "\u2029", "\u00a0", "\u200b", "\u0301", "\U0001F600", "\r", "\ufffd", "\uff08", "\u00b5"]
    bases = ["", "qubit q;", "int x = 1;\n", "include \"stdgates.inc\";\nh q;", "OPENQASM 3.0;\nqubit q;", "x = 10", "// c"]
    for sp in specials:
        for b in bases:
            texts += [sp + b, b + sp, sp + b + sp]
        texts.append(sp + sp)
    # jointness positions: the parser's Input keeps one "joint with the next token" bit per token in 64-bit words; whether the
    # pieces of a composite operator ('> >' vs '>>') are glued is decided by that bit.  Sweep the token position of a spaced and
    # of a joined composite operator over more than two words, in front of statements whose tokens abut ('y;') or do not ('y ;'),
    # so that every bit position holds, in some text, a 0 next to 1s and a 1 next to 0s (seeded change C02-x1: the mask 0x1f).
    pairs = [(">", ">"), ("<", "="), ("-", ">"), ("+", "+"), ("&", "&")]
    for k in range(0, 70):
        a, b = pairs[k % len(pairs)]
        for tail in ("y;", "y ;"):
            texts.append("y;" * k + f"x = a {a} {b} c;" + tail * 20)
            texts.append("y ;" * k + f"x = a {a}{b} c ;" + tail * 20)
    seen = set(); out = []
    for t in texts:
        if t not in seen and len(t) < 65536:
            seen.add(t); out.append(t)
    return out


if __name__ == "__main__":
    c = collect()
    json.dump(c, open(sys.argv[1], "w"))
    print(len(c), "texts", sum(len(t) for t in c), "bytes")
