#!/bin/sh
# usage: run_all.sh [quick|thorough] [ids...]  -- run every registered check on the current tree, summarise.
T="${1:-quick}"; shift 2>/dev/null
cd /verif
IDS="$@"
[ -z "$IDS" ] && IDS=$(python3 -c "import json;print(' '.join(c['property_id'] for c in json.load(open('MANIFEST.json'))['checks']))")
for id in $IDS; do
  s=$(date +%s)
  python3 checks/$id.py $T > work/run_$id.log 2>&1; rc=$?
  e=$(date +%s)
  echo "$id rc=$rc $((e-s))s $(grep -c KNOWN-FINDING work/run_$id.log) known, $(grep -c VIOLATION work/run_$id.log) violations"
done
