#!/usr/bin/env python3
"""Build /verif/seeded/<id>/ (patch.diff, demonstration, README.md, meta.json) from the staged sub-agent deliverables, the
confirmation results (tools/verify_seeds.py -> work/seed_verification*.json) and the detection matrix (tools/seed_matrix.py ->
work/seed_matrix*.json)."""
import glob, json, os, re, shutil, sys

V = "/verif"
ver = {}
for f in sorted(glob.glob(f"{V}/work/seed_verification*.json")):
    ver.update(json.load(open(f)))
mat = {}
for f in sorted(glob.glob(f"{V}/work/seed_matrix*.json")):
    mat.update(json.load(open(f)))


def needs(readme):
    m = re.search(r"##+\s*What it needs[^\n]*\n(.*?)(?:\n##|\Z)", readme, re.S | re.I)
    if m:
        return " ".join(m.group(1).split())[:900]
    m = re.search(r"(?:needs|Trigger|manifest)[^\n]*\n?(.*?)(?:\n\n|\Z)", readme, re.S | re.I)
    return " ".join((m.group(0) if m else readme[:400]).split())[:900]


for st in ("staging", "staging2", "staging3", "staging4", "staging5", "staging6", "staging7", "staging8"):
    for d in sorted(glob.glob(f"{V}/seeded/{st}/C*")):
        sid = os.path.basename(d)
        if sid not in ver or sid not in mat:
            continue          # not yet confirmed / not yet run against the checks
        out = f"{V}/seeded/{sid}"
        os.makedirs(out, exist_ok=True)
        patch = os.path.join(d, "patch.rebased.diff") if os.path.exists(os.path.join(d, "patch.rebased.diff")) else os.path.join(d, "patch.diff")
        shutil.copy(patch, os.path.join(out, "patch.diff"))
        demos = [f for f in os.listdir(d) if f.endswith(".rs")]
        for f in demos:
            shutil.copy(os.path.join(d, f), os.path.join(out, f))
        readme = open(os.path.join(d, "README.md")).read() if os.path.exists(os.path.join(d, "README.md")) else ""
        open(os.path.join(out, "README.md"), "w").write(readme)
        v = ver.get(sid, {})
        m = mat.get(sid, {})
        meta = {
            "id": sid,
            "property": sid.split("-")[0],
            "source": "independent sub-agent given only the property text and a scratch worktree" + (" (second round, after the machine specs were added)" if st == "staging2" else " (third round, after the second-round misses were closed)" if st == "staging3" else " (fourth round)" if st == "staging4" else " (fifth round)" if st == "staging5" else " (sixth round)" if st == "staging6" else " (seventh round, three properties)" if st == "staging7" else " (eighth round, four properties)" if st == "staging8" else ""),
            "patch": "patch.diff" + (" (rebased onto the current /repo HEAD; the sub-agent's diff was against an earlier HEAD)" if patch.endswith("rebased.diff") else ""),
            "demonstration": demos,
            "demonstration_crate": v.get("crate"),
            "what_it_needs_to_manifest": needs(readme),
            "confirmed": {k: v.get(k) for k in ("suite_passes_with_change", "demo_fails_with_change", "demo_passes_without_change", "status")},
            "confirmation_procedure": "tools/verify_seeds.py in a scratch worktree of /repo HEAD: git apply patch.diff; cargo test --workspace --no-fail-fast --offline (exit code); copy the demonstration into crates/<crate>/tests/ and run it (must fail); git checkout -- . and run it again (must pass)",
            "detection": {chk: {"exit": r["exit"], "violation_lines": r["violations"], "first": r.get("first", "")[:300]} for chk, r in m.items()},
            "detection_procedure": "tools/try_seed.sh: git -C /repo apply patch.diff; python3 checks/<Cxx>.py quick; git -C /repo checkout -- .",
            "detected_by": sorted(chk for chk, r in m.items() if r["exit"] == 1 and r["violations"] > 0),
        }
        json.dump(meta, open(os.path.join(out, "meta.json"), "w"), indent=1)
        print(sid, meta["confirmed"]["status"], meta["detected_by"])
