#!/usr/bin/env python3
"""Warm the TLC caches used by the quick tier (spec-only artefacts)."""
import os, sys
sys.path.insert(0, os.path.dirname(os.path.abspath(__file__)))
from vlib import run_tlc, run_tlc_stream

JOBS = [
    ("symtab", "MCSymTab", "MCSymTab_refine.cfg", dict(coverage=True, cache_key="refine")),
    ("symtab", "MCSymTab", "MCSymTab_graph9.cfg", dict(cache_key="graph", keep_tags={"EDGE"})),
    ("symtab", "MCSymTab", "MCSymTab_graph.cfg", dict(cache_key="graph", keep_tags={"EDGE"})),
    ("lexemes", "LexemeGen", "LexemeGen_pairs.cfg", dict(cache_key="pairs", keep_tags={"CASE", "POOL", "SEPS"})),
    ("pipeline", "Pipeline", "Pipeline.cfg", dict(workers=4, coverage=True, keep_tags={"CASE"}, cache_key="gating")),
    ("grammar", "GrammarCases", "GrammarCases_quick.cfg", dict(workers=1, xss="1g", cache_key="gc", keep_tags={"CASE", "SEQ", "COUNT"}, xmx="12g")),
    ("analyzer", "MCAnalyzer", "MCAnalyzer_bfs.cfg", dict(workers=8, xss="512m", cache_key="bfs", keep_tags={"CASE"}, coverage=False)),
    ("analyzer", "MCAnalyzer", "MCAnalyzer_std.cfg", dict(workers=8, xss="512m", cache_key="std", keep_tags={"CASE"}, coverage=False)),
    ("analyzer", "MCAnalyzer", "MCAnalyzer_switch.cfg", dict(workers=8, xss="512m", cache_key="switch", keep_tags={"CASE"}, coverage=False)),
    ("analyzer", "MCAnalyzer", "MCAnalyzer_scope.cfg", dict(workers=8, xss="512m", cache_key="scope", keep_tags={"CASE"}, coverage=False)),
    ("includes", "Includes", "Includes.cfg", dict(workers=8, xss="512m", cache_key="inc", keep_tags={"CASE"}, xmx="16g")),
    ("includes", "Includes", "Includes2.cfg", dict(workers=8, xss="512m", cache_key="inc", keep_tags={"CASE"}, xmx="16g")),
    ("typerules", "TypeRules", "TypeRules.cfg", dict(workers=1, xss="512m", cache_key="tr", keep_tags={"DECL", "SIG", "LISTING", "ROW", "ARITH"})),
    ("events", "MCEvents", "MCEvents.cfg", dict(workers=8, cache_key="v1", keep_tags=["CASE"], xmx="16g")),
    ("lexer", "MCLexer", "MCLexer_A.cfg", dict(workers=8, cache_key="v1", keep_tags=["CASE"], xmx="16g")),
    ("lexer", "MCLexer", "MCLexer_B.cfg", dict(workers=8, cache_key="v1", keep_tags=["CASE"], xmx="16g")),
    ("lexer", "MCLexer", "MCLexer_C.cfg", dict(workers=8, cache_key="v1", keep_tags=["CASE"], xmx="16g")),
    ("lexer", "MCLexer", "MCLexer_D.cfg", dict(workers=8, cache_key="v1", keep_tags=["CASE"], xmx="16g")),
    ("lexer", "MCLexer", "MCLexer_E.cfg", dict(workers=8, cache_key="v1", keep_tags=["CASE"], xmx="16g")),
    ("lexer", "LexRefine", "LexRefine_pairs.cfg", dict(workers=8, xss="512m", cache_key="refine", lib="lexemes", keep_tags=set())),
    ("analyzer", "MCAnalyzer", "MCAnalyzer_sim.cfg", dict(workers=1, xss="512m", simulate=80, depth=14, seed=1, keep_tags={"CASE"}, cache_key="sim-80-1")),
    ("gramrefine", "GramRefine", "GramRefine.cfg", dict(workers=8, xss="1g", xmx="12g", lib=["grammar", "lexer", "pgrammar", "events"], cache_key="v1", keep_tags=set())),
    ("literals", "LiteralsGen", "LiteralsGen.cfg", dict(workers=1, xss="1g", cache_key="lit", keep_tags={"CASE", "COUNT"})),
]
for d, m, c, kw in JOBS:
    kw.setdefault('workers', 8)
    r = run_tlc(d, m, c, timeout=1500, **kw)
    print(d, m, c, "ok" if r.ok else "FAILED", "cached" if r.cached else f"{r.wall:.0f}s", file=sys.stderr)

# streamed case files (grammar machine spec): all families, and the quick tier's seeded simulation
for cfg, kw in [("MCGrammar_quick.cfg", dict(workers=8, timeout=3000, lib="events", cache_key="v1")),
                ("MCGrammar_sim.cfg", dict(workers=1, timeout=3000, lib="events", cache_key="sim", simulate=300, depth=14, seed=1))]:
    r, gz, n = run_tlc_stream("pgrammar", "MCGrammar", cfg, "CASE", **kw)
    print("pgrammar MCGrammar", cfg, "ok" if r.ok else "FAILED", "cached" if r.cached else f"{r.wall:.0f}s", n, "cases", file=sys.stderr)
