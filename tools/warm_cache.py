#!/usr/bin/env python3
"""Warm the TLC caches used by the quick tier (spec-only artefacts)."""
import os, sys
sys.path.insert(0, os.path.dirname(os.path.abspath(__file__)))
from vlib import run_tlc

JOBS = [
    ("symtab", "MCSymTab", "MCSymTab_refine.cfg", dict(coverage=True, cache_key="refine")),
    ("symtab", "MCSymTab", "MCSymTab_graph9.cfg", dict(cache_key="graph", keep_tags={"EDGE"})),
    ("symtab", "MCSymTab", "MCSymTab_graph.cfg", dict(cache_key="graph", keep_tags={"EDGE"})),
]
for d, m, c, kw in JOBS:
    r = run_tlc(d, m, c, workers=8, timeout=1500, **kw)
    print(d, m, c, "ok" if r.ok else "FAILED", "cached" if r.cached else f"{r.wall:.0f}s", file=sys.stderr)
