#!/bin/sh
# usage: try_seed.sh <patch.diff> <check script> [tier]   -- apply a seeded change to /repo, run the check, undo.
set -u
P="$(readlink -f "$1")"; C="$2"; T="${3:-quick}"
cd /repo || exit 2
if [ -n "$(git status --porcelain --untracked-files=no)" ]; then echo "/repo dirty"; exit 2; fi
if ! git apply "$P" 2>/dev/null; then
  if ! git apply -3 "$P" >/dev/null 2>&1; then echo "patch does not apply"; git reset -q --hard; exit 2; fi
  git reset -q
fi
cd /verif && python3 "$C" "$T"; rc=$?
cd /repo && git checkout -- . 
echo "exit=$rc"
exit $rc
