#!/usr/bin/env python3
"""Run every staged/kept seeded change against the quick check of its own property (and optionally others);
record which checks raise a VIOLATION.  Applies the patch to /repo and undoes it afterwards."""
import json, os, subprocess, sys, re
ST = os.environ.get("SEED_STAGING") or ("/verif/seeded/staging" if os.path.isdir("/verif/seeded/staging") and os.listdir("/verif/seeded/staging") else "/verif/seeded")
OUT = os.environ.get("SEED_MATRIX_OUT", "/verif/work/seed_matrix.json")
EXTRA = {"C04-r1": ["C05"], "C04-r2": ["C05"], "C06-r1": ["C05"], "C06-r2": ["C05", "C07"], "C07-r1": ["C13"], "C07-r2": ["C03"], "C08-r1": ["C09"], "C08-r2": ["C20"], "C09-r1": ["C07"], "C09-r2": ["C08"],
         "C10-r1": ["C15", "C14"], "C10-r2": ["C06"], "C11-r1": ["C15", "C14"], "C11-r2": ["C18"], "C12-r1": ["C01"], "C12-r2": ["C18"], "C13-r1": ["C08"], "C13-r2": ["C07", "C03"], "C16-r1": ["C05"], "C16-r2": ["C02"],
         "C17-r1": ["C09"], "C17-r2": ["C13"], "C18-r1": ["C11"], "C18-r2": ["C12"], "C19-r1": ["C07"], "C19-r2": ["C07", "C13"], "C20-r1": ["C08"], "C20-r2": ["C08"],
         "C02-r1": ["C01"], "C02-r2": ["C14"], "C14-r1": ["C01", "C15"], "C14-r2": ["C02"], "C15-r1": ["C10", "C14"], "C15-r2": ["C14", "C17"], "C05-r1": ["C01"], "C05-r2": ["C01"], "C03-r1": ["C07", "C13"], "C03-r2": ["C07"], "C01-r2": ["C02"],
         "C06-s1": ["C05", "C08"], "C06-s2": ["C10", "C08"], "C07-s1": ["C19", "C16"], "C07-s2": ["C13"], "C08-s1": ["C06"], "C08-s2": ["C20"], "C09-s1": ["C07"], "C09-s2": ["C10"],
         "C10-s1": ["C06", "C15"], "C10-s2": ["C08"], "C13-s1": ["C08"], "C13-s2": ["C06"],
         "C04-t1": ["C05", "C10"], "C04-t2": ["C05", "C06"], "C05-t1": ["C04", "C06"], "C05-t2": ["C06"], "C11-t1": ["C15", "C14"], "C11-t2": ["C18"], "C12-t1": ["C11", "C01"], "C12-t2": ["C14"],
         "C16-t1": ["C05", "C04"], "C16-t2": ["C04"], "C17-t1": ["C09"], "C17-t2": ["C07"], "C18-t1": ["C11"], "C18-t2": ["C11", "C12"], "C20-t1": ["C08"], "C20-t2": ["C08"],
         "C01-u1": ["C02", "C12"], "C01-u2": ["C02", "C12"], "C02-u1": ["C14", "C01"], "C02-u2": ["C14", "C01"], "C03-u1": ["C07", "C06"], "C03-u2": ["C13", "C06"],
         "C14-u1": ["C02", "C15"], "C14-u2": ["C02", "C15"], "C15-u1": ["C14", "C11"], "C15-u2": ["C14", "C04"], "C19-u1": ["C07"], "C19-u2": ["C07"],
         "C06-v1": ["C08", "C03"], "C06-v2": ["C08", "C03"], "C07-v1": ["C19", "C13"], "C07-v2": ["C19", "C13"], "C08-v1": ["C06", "C20"], "C08-v2": ["C06", "C20"],
         "C09-v1": ["C07", "C08"], "C09-v2": ["C07", "C08"], "C13-v1": ["C06", "C08"], "C13-v2": ["C06", "C08"], "C17-v1": ["C07", "C09"], "C17-v2": ["C07", "C09"],
         "C02-x1": [], "C12-x1": ["C02"], "C16-x1": ["C05"], "C19-x1": ["C07"],
         "C08-w1": ["C06"], "C08-w2": ["C06"], "C09-w1": ["C07"], "C09-w2": ["C07"], "C10-w1": ["C06"], "C10-w2": ["C06"],
         "C09-1": ["C07"], "C17-1": ["C15", "C04"], "C02-2": ["C14"], "C14-1": ["C02"], "C06-1": ["C05"], "C05-2": ["C06"], "C19-1": ["C07"], "C19-2": ["C07"], "C10-1": ["C15"],
         "C08-1": ["C20"], "C08-2": ["C20"], "C20-1": ["C08"], "C20-2": ["C08"], "C11-1": ["C15"], "C15-1": ["C10"], "C04-2": ["C10"], "C06-2": ["C10"], "C03-2": ["C07"], "C13-1": ["C07"], "C12-1": ["C01"], "C12-2": ["C01"]}
out = {}
only = sys.argv[1:]
for d in sorted(os.listdir(ST)):
    if not re.match(r"C\d\d-[rstuvwx]?\d", d) or (only and d not in only):
        continue
    sd = os.path.join(ST, d)
    patch = os.path.join(sd, "patch.rebased.diff") if os.path.exists(os.path.join(sd, "patch.rebased.diff")) else os.path.join(sd, "patch.diff")
    own = d.split("-")[0]
    res = {}
    for chk in [own] + EXTRA.get(d, []):
        p = subprocess.run(["/verif/tools/try_seed.sh", patch, f"checks/{chk}.py", "quick"], stdout=subprocess.PIPE, stderr=subprocess.STDOUT, text=True, cwd="/verif")
        viol = [l for l in p.stdout.splitlines() if l.startswith("VIOLATION")]
        detail = [l.strip()[:300] for l in p.stdout.splitlines() if l.strip().startswith('{"kind"')]
        res[chk] = {"exit": p.returncode, "violations": len(viol), "first": detail[0] if detail else ""}
        print(d, chk, "exit", p.returncode, len(viol), flush=True)
    out[d] = res
    json.dump(out, open(OUT, "w"), indent=1)
