#!/usr/bin/env python3
"""Generate /verif/MANIFEST.json from the table below (single source of truth for the interface)."""
import json, os
V = os.path.dirname(os.path.dirname(os.path.abspath(__file__)))

CHECKS = {
    "C19": dict(
        level="model_checking", design="5/C19, 4.7",
        text="TLC proves SymTab (machine spec shaped like symbols.rs) refines StackOfMaps (history-based requirement) for all histories "
             "up to the bound; TLC's complete transition relation is exported and the real SymbolTable is driven through ALL histories "
             "(quick: length<=6 over the 9 operations, thorough: <=8) in lock-step, every answer and projected state compared; random "
             "200-step histories recorded from the real table are validated by TLC against the trace spec.",
        note="bounded: names {a,b}(+pi,U), 2-3 types, histories <= 8; hashbrown trusted; exit on global scope is a precondition",
        technique="TLA+ refinement checked by TLC + exhaustive lock-step graph walk + TLC trace validation",
        engine="tlc+walker"),
}
CHECKS["C20"] = dict(
    level="model_checking", design="5/C20, 4.8",
    text="The real promote_types / promote_types_not_equal / can_cast_literal / equal_base_type / implicit_cast_type are tabulated over the "
         "complete finite abstraction (128 types, 16 384 ordered pairs); TLC walks the table one state per pair, evaluates every clause of C20 "
         "(TypeLattice.tla, written from the statement) on the recorded answers, checks associativity on all 2.1e6 triples (thorough), and compares "
         "the table with the transcription of types.rs (Promote.tla) for drift. Exhaustive over the finite domain.",
    note="width abstraction by ranks (the code only compares widths with max); deviations predicted by named Dev_ operators are known findings",
    technique="TLA+ requirement spec evaluated by TLC on the complete recorded function table (trace validation of a finite function)",
    engine="tlc+table")
NOT_YET = {}
for i in range(1, 21):
    pid = f"C{i:02d}"
    if pid not in CHECKS:
        NOT_YET[pid] = "check not built yet in this round (planned in DESIGN.md section 5); will be claimed when its specification and binding exist"

m = {
    "version": 1,
    "setup_cmd": "sh tools/setup.sh",
    "hooks": {
        "guard": "oq3_verif",
        "enable": "RUSTFLAGS --cfg oq3_verif via /verif/harness/.cargo/config.toml (the harness has path dependencies on /repo/crates/*)",
        "baseline_off_cmd": "cd /repo && cargo test --workspace --no-fail-fast --offline",
        "source_commits": ["f36a573", "c9e57bc", "57d4869"],
        "add_only": True,
    },
    "engines": [
        {"name": "tlc", "path": "tools/vlib.py", "serves_properties": sorted(CHECKS), "kind_free_text": "TLC 1.8 exhaustive / simulation / trace validation over the modules in spec/"},
        {"name": "oq3v", "path": "harness/", "serves_properties": sorted(CHECKS), "kind_free_text": "Rust conformance harness: replays TLC-generated behaviours into the real crates, walks exported state graphs in lock-step, records traces for TLC"},
    ],
    "checks": [],
    "not_applicable": [{"property_id": k, "reason": v} for k, v in sorted(NOT_YET.items())],
    "notes": "see DESIGN.md; known findings in known_findings.jsonl; seeded changes in seeded/",
}
for pid, c in sorted(CHECKS.items()):
    m["checks"].append({
        "property_id": pid,
        "quick_cmd": f"python3 checks/{pid}.py quick",
        "thorough_cmd": f"python3 checks/{pid}.py thorough",
        "evidence_file": f"/verif/evidence/{pid}.json",
        "replay_cmd_template": f"python3 checks/{pid}.py --replay {{path}}",
        "engine": c["engine"],
        "level_claimed": {"category": c["level"], "text": c["text"], "design_ref": c["design"]},
        "level_note": c["note"],
        "technique": c["technique"],
    })
json.dump(m, open(os.path.join(V, "MANIFEST.json"), "w"), indent=1)
print("checks:", len(m["checks"]), "not_applicable:", len(m["not_applicable"]))
