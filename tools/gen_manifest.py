#!/usr/bin/env python3
"""Generate /verif/MANIFEST.json from the table below (single source of truth for the interface)."""
import json, os
V = os.path.dirname(os.path.dirname(os.path.abspath(__file__)))

CHECKS = {
    "C19": dict(
        level="model_checking", design="5/C19, 4.7",
        text="TLC proves SymTab (machine spec shaped like symbols.rs) refines StackOfMaps (history-based requirement) for all histories "
             "up to the bound; TLC's complete transition relation is exported and the real SymbolTable is driven through ALL histories "
             "(quick: length<=6 over the 9 operations, thorough: <=8; plus a deep and narrow family: one name, enter/exit/bind/lookup, length 10, thorough 12) in lock-step, every answer and the state projected from a CLONE of the table compared; random "
             "200-step histories recorded from the real table are validated by TLC against the trace spec.",
        note="bounded: names {a,b}(+pi,U), 2-3 types, histories <= 8; hashbrown trusted; exit on global scope is a precondition",
        technique="TLA+ refinement checked by TLC + exhaustive lock-step graph walk + TLC trace validation",
        engine="tlc+walker"),
}
CHECKS["C20"] = dict(
    level="model_checking", design="5/C20, 4.8",
    text="The real promote_types / promote_types_not_equal / can_cast_literal / equal_base_type / implicit_cast_type are tabulated over the "
         "complete finite abstraction (128 types, 16 384 ordered pairs); TLC walks the table one state per pair, evaluates every clause of C20 "
         "(TypeLattice.tla, written from the statement) on the recorded answers (for implicit_cast_type: + and & give the common type, / gives an upper bound of both numeric operands, symmetric up to const), checks associativity on all 2.1e6 triples (thorough), and compares "
         "the table with the transcription of types.rs (Promote.tla) for drift. Exhaustive over the finite domain.",
    note="width abstraction by ranks (the code only compares widths with max); deviations predicted by named Dev_ operators are known findings",
    technique="TLA+ requirement spec evaluated by TLC on the complete recorded function table (trace validation of a finite function)",
    engine="tlc+table")
CHECKS["C14"] = dict(
    level="model_checking", design="5/C14, 4.11",
    text="Every string of length <= 6 (thorough 7) over three 14-character alphabets of lexically critical characters (2.4e7 / 3.4e8 strings) "
         "goes through tokenize and LexedStr with the partition clauses evaluated on each; the robustness corpus (repository texts, mutations, "
         "random UTF-8 incl. NUL and multi-byte, nesting) is lexed and a stride sample of the recorded token streams and tables is validated by "
         "TLC against LexTrace.tla, whose clauses are the statement of C14. Lexer.tla is a machine spec of Cursor::advance_token and every scanner; TLC (MCLexer) "
         "visits every text of <= 4 (thorough 5) chunks over five chunk sets (4.9e5 / 3.6e6 texts), proves the C14 clauses on the model's stream in every state and exports each "
         "state together with the rows of TokenTable.tla (machine spec of LexedStr::new); the real tokenize / LexedStr must produce the model's stream and rows (drift otherwise) and satisfy the clauses; recorded streams of "
         "corpus/mutated/random texts are validated by TLC against the machine spec (LexerTrace.tla).",
    note="partition clauses evaluated natively at scale and by TLC on the recorded sample; random inputs <= 4 KiB; Unicode classes by representatives",
    technique="TLA+ machine spec of the lexer model-checked by TLC for the C14 clauses + every state replayed into the real lexer + TLC trace validation of recorded token streams",
    engine="walker+tlc")
CHECKS["C15"] = dict(
    level="model_checking", design="5/C15, 4.2",
    text="Lexemes.tla states the OpenQASM 3 lexical grammar as a pool of 234 lexeme descriptors plus NeedsSep; TLC enumerates every ordered pair "
         "of lexemes with every admissible separator (4.7e5 cases) and simulated longer sequences; the real lexer + token table must show exactly "
         "those lexemes (kind, exact text) and no lexical error. Design level: the machine specs Lexer.tla (+) TokenTable.tla (LexedStr::new: kind conversion, keyword tables, "
         "diagnostics) are model-checked against Lexemes for the same 4.4e5 sequences (LexRefine.tla, invariant C15_Model, 8.9e5 states), and bound to the code by the MCLexer replay of C14.",
    note="one representative per literal/identifier shape; unicode-xid trusted; CRLF after line-terminated lexemes not exercised",
    technique="TLA+ requirement spec as generator (TLC exhaustive pairs + simulation), behaviours replayed into the real lexer",
    engine="tlc+replay")
CHECKS["C11"] = dict(
    level="model_checking", design="5/C11, 4.10",
    text="(a) the malformed classes of C11 in Lexemes.tla are spliced before/after every pool lexeme with every separator and at end of input; each "
         "must carry a lexical diagnostic on an overlapping token; the same clause is model-checked on the lexer machine specs (LexRefine.tla, C11_Model). (b) Pipeline.tla (one action per stage) is model-checked against Gating.tla for every "
         "include chain of depth <= 4 with one fault class per file (780 configurations); each is materialised on disk in 3-12 textual variants and "
         "pushed through both entry points; observed stage outcomes must equal Gating's.",
    note="fault snippets are fixed texts per class; include chains are linear",
    technique="TLC model check of staged-pipeline spec against gating requirement + replay of every configuration; TLC-generated malformed lexeme cases",
    engine="tlc+replay")
CHECKS["C10"] = dict(
    level="exploration", design="5/C10, 4.9",
    text="Literals.tla enumerates 3 300 literal spellings with canonical values (digit strings in the literal's own radix, canonical float text, bits/width, "
         "unit, sign; boundary magnitudes up to 2^128-1 for plain, imaginary and timing integers, separators in every admissible place); each is analysed and the literal in the semantic graph and the AST accessor values are compared; "
         "integers of 2^128 and more must be diagnosed and have no value.",
    note="nearest-double rounding delegated to str::parse::<f64> (trusted); no big integers in TLA+, values are digit strings",
    technique="TLA+ requirement spec as case generator (TLC), replay into the real analyser",
    engine="tlc+replay")
_parse_text = ("Both public parse entry points are driven over every token sequence of length <= 4 (quick) / <= 5 (thorough, 6.3e9 sequences) over the full "
    "91-kind token alphabet as oq3_parser::Input (all jointness patterns up to length 3/4) and rendered to text, plus the robustness corpus (repository texts, "
    "mutations, random UTF-8, token soup, deep nesting); hooks turn non-terminating grammar loops into attributable panics; a stride sample of the recorded parse "
    "observations is validated by TLC against TreeTrace.tla/TreeShape.tla. ")
CHECKS["C01"] = dict(level="model_checking", design="5/C01", text=_parse_text + "C01 verdict: the call returns, parser events <= 64*(tokens+1). "
    "Grammar.tla is a machine spec of the whole grammar (every function of grammar.rs, items.rs, expressions.rs, atom.rs, params.rs over the Parser/Marker API); TLC (MCGrammar) visits every token "
    "sequence of nine families up to 2-5 tokens (5.7e5 states; thorough 3e6) plus seeded simulations of 14-16 tokens, proves C01_Model in every state (no failed assertion/unreachable, every loop "
    "iteration makes progress, all tokens consumed once, one balanced tree after event::process, linear work) and exports every state; the real parser is run on the same Input and its raw events "
    "(kinds, forward parents, glued tokens, error messages) compared with the model's.",
    note="bounds: random inputs <= 4 KiB, nesting <= 64; rowan trusted; a difference between the real events and the machine spec is model drift, the verdict comes from the real run",
    technique="TLA+ machine spec of the grammar model-checked by TLC for the C01 clauses + every explored token sequence replayed into the real parser; bounded-exhaustive token sequences + TLC trace validation (TreeTrace.tla) of recorded parses", engine="tlc+replay+walker")
CHECKS["C02"] = dict(level="model_checking", design="5/C02", text=_parse_text + "C02 verdict: TreeShape!Lossless (root, leaf text, tiling, node = span of children) on every observation. "
    "Protocol level: Events.tla models Parser/Marker/CompletedMarker, event::process (forward parents, tombstones) and intersperse_trivia/Builder; TLC proves TreeShapeHolds, BuilderNeverOverruns and Balanced "
    "for every disciplined call sequence up to the bound over every trivia layout (2.4e5 / 2e7 states) and every finished behaviour (3.2e3 / 1.1e5) is executed on the real Marker API, process and intersperse_trivia "
    "through the hook oq3_parser::verif::drive, delivered steps compared. Conversely the Marker-API calls the real grammar makes on corpus/mutated/random texts are recorded (hook keep_ops) "
    "and validated by TLC against EventsTrace.tla: the grammar is a disciplined client and the real raw events and builder steps are exactly what the machine spec computes (400 / 5 000 parses).",
    note="clauses evaluated natively at scale and by TLC on the recorded sample; protocol model bounded to 2-3 raw tokens and 7-9 calls", technique="TLA+ machine spec of the event protocol model-checked by TLC + every behaviour replayed into the real Marker API; TLA+ tree-shape requirement checked by TLC on recorded trees + native evaluation at scale", engine="walker+tlc")
CHECKS["C12"] = dict(level="model_checking", design="5/C12", text=_parse_text + "C12 verdict: TreeShape!SpansValid and ErrorHasDiag on every observation (syntax diagnostics). Semantic diagnostics: every program generated from the analyser machine spec "
    "(Analyzer.tla) and a stride sample of the include arrangements generated from Includes.tla are analysed; every semantic diagnostic of every list (main text, each included file, unreadable files) must be the range of a node of the tree of THAT list's file.",
    note="semantic spans are evaluated by the harness on model-generated programs and arrangements", technique="TLA+ span/tree monitors checked by TLC on recorded observations + native evaluation at scale", engine="walker+tlc")
_gram = ("RefGrammar.tla states the supported OpenQASM 3 subset as abstract syntax with a printer that inserts exactly the parentheses the language's precedence "
    "table requires (or redundant ones); GrammarCases.tla derives finite case families that TLC evaluates and prints; the harness renders every case under 4 layouts and "
    "drives the real front end. ")
CHECKS["C04"] = dict(level="model_checking", design="5/C04, 4.6", text=_gram + "C04 verdict: both parse entry points report no diagnostic for every rendering (3.7e3 cases x 4 layouts; thorough 2.4e4 cases).",
    note="operand pools are small; expression depth <= 3; families enumerated exhaustively", technique="TLA+ reference grammar as generator (TLC), behaviours replayed into the real parser; TLC model check of the composed front-end machine specs (GramRefine.tla: C04_Model incl. the validation pass)", engine="tlc+replay")
CHECKS["C05"] = dict(level="model_checking", design="5/C05, 4.6", text=_gram + "C05 verdict: the typed accessors applied to the real tree reproduce the abstract tree the case was printed from "
    "(all 19x19x2 operator pairs under minimal/redundant parentheses in 4 contexts, unary/postfix interactions, every statement's roles; thorough: all 19^3 triples in 3 shapes).",
    note="the accessor layer is the observation; parentheses transparent; design level: GramRefine.tla checks C05e_Model - the composed front-end machine specs plus a model of the typed accessors (AstProj.tla) map every reference expression case to its abstract tree", technique="TLA+ reference grammar as generator + typed-AST skeleton comparison; TLC model check of the composed machine specs against the reference grammar (expression families)", engine="tlc+replay")
CHECKS["C16"] = dict(level="model_checking", design="5/C16, 4.6", text=_gram + "C16 verdict: for every ordered pair (thorough: triple) of 48 pool statements in 10 block contexts, if each parses cleanly alone "
    "the concatenation parses cleanly and its statement list is the concatenation of the individual lists.",
    note="cases whose premise fails are skipped and counted", technique="TLA+ reference grammar as generator + compositionality comparison on the real parser", engine="tlc+replay")
_anz = ("Analyzer.tla is a machine spec of syntax_to_semantics over lazily generated abstract programs (declarations, assignments, gate calls with modifiers, "
    "reset/barrier/delay/measure, if/else/while/for with block and single-statement bodies, switch with case and default blocks, gate and def definitions, return, pragma, annotations, "
    "include stdgates, literal statements of every class with optional trivia between number and unit, repeated statements, indexed identifiers with six index forms as expression statement / reset and measure operand / assignment target) with "
    "names drawn from {a,b,h,U,pi} in every role; each action mirrors one arm of the analyser (order of look-ups, bindings, scope entries/exits, diagnostics). TLC explores it "
    "exhaustively for short programs, for three focus families (switch/case/default scoping; several user gates colliding with the standard library; declarations and uses of one name in braced and un-braced bodies of if/else/while/for) and by seeded simulation for long, deeply nested ones, "
    "checks the scope-pairing invariants and M |= R (AnalyzerReq: Scoping, UsageRules, AsgShape), and prints every complete program with the "
    "predicted symbols, diagnostics and graph skeleton; the harness renders each under 4 layouts (one of them treats neighbouring statements differently), 2 renamings and all top-level prefixes and compares the real analysis. ")
CHECKS["C03"] = dict(level="model_checking", design="5/C03, 4.8", text=_anz + "C03 verdict: no panic, scope depth 1 afterwards (hook), invariants ScopeDepthMatchesNesting/BackToGlobal hold in M.",
    note="programs of the modelled subset only; panics outside it are covered by the robustness corpus of C01 only at the parser level", technique="TLA+ machine spec explored by TLC (BFS + simulation), behaviours replayed into the real analyser", engine="tlc+replay")
CHECKS["C06"] = dict(level="model_checking", design="5/C06, 4.8", text=_anz + "C06 verdict: the reduced graph skeleton (statement kinds, nesting, roles, order of operands/qubits, the SEQUENCE of gate modifiers, operator and literal classes, iterables, switch entries) equals the predicted one.",
    note="Cast wrappers and expression types are stripped from the skeleton (C08 covers typing)", technique="TLA+ machine spec as oracle, graph skeleton comparison", engine="tlc+replay")
CHECKS["C07"] = dict(level="model_checking", design="5/C07, 4.8", text=_anz + "C07 verdict: every symbol reference in the graph (uses and declarations) is the predicted symbol, the symbol list has the predicted names, and the multiset of undefined/redeclaration diagnostics is the predicted one.",
    note="shadowing, reuse after scope exit, duplicates, built-ins, U and standard gate names collide through the shared name pool", technique="TLA+ machine spec of scoping explored by TLC, resolution map compared on the real analyser", engine="tlc+replay")
CHECKS["C13"] = dict(level="model_checking", design="5/C13, 4.8", text=_anz + "C13 verdict: the multiset of usage-rule diagnostics (arity, non-gate, non-quantum operand, quantum operand of a binary operator, const mutation, scope placement, return) equals the predicted one.",
    note="ctrl-modified calls are outside the statement of C13", technique="TLA+ machine spec as oracle, diagnostic multiset comparison", engine="tlc+replay")
CHECKS["C17"] = dict(level="exploration", design="5/C17, 4.11", text=_anz + "C17 verdict: symbols, diagnostics (with payload) and skeleton are identical across 4 layouts, equal up to the renaming for 2 renamings, a prefix for every top-level prefix, and identical when analysed twice (eight times for programs that include the standard library). The typed programs of TypeRules.tla (declarations, signatures, conversions) are analysed under layout-only variants that change ONE bracket and leave its twins alone; symbols, diagnostics and graph must not change.",
    note="metamorphic relations evaluated by the harness on model-generated programs", technique="model-generated programs + metamorphic comparison on the real analyser", engine="tlc+replay")
CHECKS["C18"] = dict(level="model_checking", design="5/C18, 4.10",
    text="IncludeSem.tla states textual inclusion with ordered path search; Includes.tla models the two phases of the code (parse_included_files building the vector of included files, "
         "syntax_to_semantic consuming it with a cursor). TLC checks Includes |= IncludeSem for 7.4e5 arrangements (3 files x 2 directories present in none/one/both, nesting <= 3, absolute and "
         "relative paths, with/without search list and QASM3_PATH, 1-2 include sites incl. stdgates.inc and includes below global scope) and prints each with the required observation; a stride "
         "sample (thorough: all / every 2nd) is materialised in a private directory tree and the real analysis compared (marker stream, tree of tagged diagnostic lists, FileNotFound count).",
    note="acyclic arrangements only; temp tree + env var handled inside the harness process", technique="TLC model check of include machine spec against textual-inclusion requirement + replay of arrangements on disk", engine="tlc+replay")
CHECKS["C08"] = dict(level="exploration", design="5/C08, 4.8",
    text="TypeRules.tla enumerates 8 106 (statement kind, target type, value type, value form) rows - scalar types and bit registers of different lengths - with the 'must always be diagnosed' flag computed from the statement, and 18 560 "
         "(operator, operand type pair, operand forms) rows carrying the common type of the operands; the harness analyses each and evaluates: diagnosed, or value type equals target up to const directly, or one explicit cast to exactly the target; "
         "must-rows need the diagnostic; value expressions carry the type of their symbol/literal class/cast target/measured operand; an arithmetic expression has the common type (integer division may be the unsized float) and each operand - variable, "
         "explicit cast, const variable, call, literal - has its own type and on top of it at most one cast to exactly the expression's type.",
    note="exhaustive over the finite abstraction (9 bases x widths {none,8,32,64} x const); 5 known findings pinned by the suite", technique="TLA+ requirement spec as row generator (TLC), rows replayed into the real analyser", engine="tlc+replay")
CHECKS["C09"] = dict(level="exploration", design="5/C09, 4.8",
    text="TypeRules.tla enumerates declaration forms x scalar types x widths across [1, 2^33] (digit strings; 'fits' decided on the string) x scopes, const-identifier designators whose constant is declared or shadowed in an inner scope, "
         "invalid designators (negative, non-integer, expression, negative constants, identifiers that are const-typed without an integer value), gate/def signatures up to 4x4, "
         "return types with const-identifier designators, and collisions of user gates with every standard-library gate; the harness compares the recorded types, parameter types and the gate listing.",
    note="Debug rendering of types::Type is the observation vocabulary", technique="TLA+ requirement spec as case generator (TLC), cases replayed into the real analyser", engine="tlc+replay")
NOT_YET = {}
for i in range(1, 21):
    pid = f"C{i:02d}"
    if pid not in CHECKS:
        NOT_YET[pid] = "check not built yet in this round (planned in DESIGN.md section 5); will be claimed when its specification and binding exist"

m = {
    "version": 1,
    "setup_cmd": "sh tools/setup.sh",
    "hooks": {
        "guard": "oq3_verif",
        "enable": "RUSTFLAGS --cfg oq3_verif via /verif/harness/.cargo/config.toml (the harness has path dependencies on /repo/crates/*)",
        "baseline_off_cmd": "cd /repo && cargo test --workspace --no-fail-fast --offline",
        "source_commits": ["f36a573", "c9e57bc", "57d4869", "ba4f29c", "3bf80c6"],
        "add_only": True,
    },
    "engines": [
        {"name": "tlc", "path": "tools/vlib.py", "serves_properties": sorted(CHECKS), "kind_free_text": "TLC 1.8 exhaustive / simulation / trace validation over the modules in spec/"},
        {"name": "oq3v", "path": "harness/", "serves_properties": sorted(CHECKS), "kind_free_text": "Rust conformance harness: replays TLC-generated behaviours into the real crates, walks exported state graphs in lock-step, records traces for TLC"},
    ],
    "checks": [],
    "not_applicable": [{"property_id": k, "reason": v} for k, v in sorted(NOT_YET.items())],
    "notes": "see DESIGN.md; known findings in known_findings.jsonl; seeded changes in seeded/",
}
for pid, c in sorted(CHECKS.items()):
    m["checks"].append({
        "property_id": pid,
        "quick_cmd": f"python3 checks/{pid}.py quick",
        "thorough_cmd": f"python3 checks/{pid}.py thorough",
        "evidence_file": f"/verif/evidence/{pid}.json",
        "replay_cmd_template": f"python3 checks/{pid}.py --replay {{path}}",
        "engine": c["engine"],
        "level_claimed": {"category": c["level"], "text": c["text"], "design_ref": c["design"]},
        "level_note": c["note"],
        "technique": c["technique"],
    })
json.dump(m, open(os.path.join(V, "MANIFEST.json"), "w"), indent=1)
print("checks:", len(m["checks"]), "not_applicable:", len(m["not_applicable"]))
