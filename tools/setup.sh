#!/bin/sh
# Run once after a fresh restore (offline): build the harness against /repo and warm the
# spec-only TLC caches (artefacts that depend only on /verif/spec).
set -e
cd /verif/harness
CARGO_NET_OFFLINE=true cargo build --release --offline --quiet
cd /verif
mkdir -p work cache evidence replay
python3 tools/warm_cache.py || true
