#!/usr/bin/env python3
"""Confirm each staged seeded change in a scratch worktree: the unedited suite passes with the change, the
demonstration fails with it and passes without it.  Writes seeded/<id>/{patch.diff, demo files, meta.json}."""
import json, os, re, shutil, subprocess, sys, glob

ST = os.environ.get("SEED_STAGING", "/verif/seeded/staging")
WT = "/tmp/sv"
ENV = dict(os.environ, CARGO_TARGET_DIR="/tmp/sv_target", CARGO_NET_OFFLINE="true")


def sh(cmd, cwd=WT, timeout=1800):
    p = subprocess.run(cmd, shell=True, cwd=cwd, env=ENV, stdout=subprocess.PIPE, stderr=subprocess.STDOUT, text=True, timeout=timeout)
    return p.returncode, p.stdout


def main():
    only = sys.argv[1:]
    if not os.path.exists(WT):
        subprocess.run(f"git -C /repo worktree add -q --detach {WT} HEAD", shell=True, check=True)
    else:
        sh("git checkout -q --detach $(git -C /repo rev-parse HEAD) && git reset -q --hard && git clean -fdq")
    results = {}
    for d in sorted(os.listdir(ST)):
        if only and d not in only:
            continue
        sd = os.path.join(ST, d)
        patch = os.path.join(sd, "patch.rebased.diff") if os.path.exists(os.path.join(sd, "patch.rebased.diff")) else os.path.join(sd, "patch.diff")
        readme = open(os.path.join(sd, "README.md")).read() if os.path.exists(os.path.join(sd, "README.md")) else ""
        m = re.search(r"crates/(\w+)/tests", readme)
        crate = m.group(1) if m else "oq3_semantics"
        demos = [f for f in os.listdir(sd) if f.endswith(".rs")]
        res = {"id": d, "crate": crate, "patch": os.path.basename(patch)}
        sh("git reset -q --hard && git clean -fdq")
        rc, out = sh(f"git apply {patch} || (git apply -3 {patch} && git reset -q)")
        if rc != 0:
            res["status"] = "patch does not apply"; results[d] = res; print(d, res["status"], flush=True); continue
        rc, out = sh("cargo test --workspace --no-fail-fast --offline 2>&1 | tail -5")
        rc, _ = sh("cargo test --workspace --no-fail-fast --offline >/dev/null 2>&1")
        res["suite_passes_with_change"] = (rc == 0)
        tdir = os.path.join(WT, "crates", crate, "tests")
        os.makedirs(tdir, exist_ok=True)
        for f in demos:
            shutil.copy(os.path.join(sd, f), os.path.join(tdir, f))
        demo_name = demos[0][:-3] if demos else None
        if demo_name:
            rc, out = sh(f"cargo test -p {crate.replace('_', '_')} --test {demo_name} --offline 2>&1 | tail -15")
            rc, _ = sh(f"cargo test -p {crate} --test {demo_name} --offline >/dev/null 2>&1")
            res["demo_fails_with_change"] = (rc != 0)
            # undo the change, keep the demo
            sh("git checkout -- .")
            rc, _ = sh(f"cargo test -p {crate} --test {demo_name} --offline >/dev/null 2>&1")
            res["demo_passes_without_change"] = (rc == 0)
        res["status"] = "confirmed" if res.get("suite_passes_with_change") and res.get("demo_fails_with_change") and res.get("demo_passes_without_change") else "not confirmed"
        results[d] = res
        print(d, json.dumps(res), flush=True)
        sh("git reset -q --hard && git clean -fdq")
    json.dump(results, open(os.environ.get("SEED_VERIF_OUT", "/verif/work/seed_verification.json"), "w"), indent=1)


if __name__ == "__main__":
    main()
