#!/usr/bin/env python3
"""Regenerate section 12 of DESIGN.md (which check detects which seeded change) from seeded/*/meta.json."""
import glob, json, os, re
V = "/verif"
rows = []
for f in sorted(glob.glob(f"{V}/seeded/C*/meta.json")):
    m = json.load(open(f))
    readme = open(os.path.join(os.path.dirname(f), "README.md")).read()
    title = next((l.lstrip("# ").strip() for l in readme.splitlines() if l.startswith("#")), "")
    title = re.sub(r"^(C\d\d )?(seeded )?[Cc]hange \d+\s*[:\-–—]+\s*", "", title)[:110]
    det = ", ".join(m["detected_by"]) or "-"
    miss = ", ".join(sorted(c for c, r in m["detection"].items() if not (r["exit"] == 1 and r["violation_lines"] > 0))) or ""
    rows.append(f"| {m['id']} | {title} | {m['confirmed'].get('status') or '?'} | {det} | {miss} |")
table = "\n".join(["| id | change | confirmed | detected by (quick tier) | also run, silent |", "|---|---|---|---|---|"] + rows)
p = f"{V}/DESIGN.md"; s = open(p).read()
a, b = "<!-- SEED-TABLE-BEGIN -->", "<!-- SEED-TABLE-END -->"
if a in s:
    s = s[:s.index(a) + len(a)] + "\n" + table + "\n" + s[s.index(b):]
    open(p, "w").write(s)
print(table[:1500])
