#!/usr/bin/env python3
"""Shared machinery for the /verif checks.

* run_tlc: TLC wrapper (timeout, private -metadir, output parsing, optional caching of
  artefacts that depend only on /verif/spec)
* harness: build (offline, against /repo's working tree, cfg oq3_verif) and run the Rust harness
* Evidence: evidence/<id>.json writer (schema /root/.vp/EVIDENCE.schema.json)
* Findings: known_findings.jsonl matcher
* Check: common driver (tier, seed, exit codes, VIOLATION / KNOWN-FINDING lines)

Exit codes of every check: 0 held (possibly with KNOWN-FINDING lines), 1 violation
(VIOLATION property=<id> replay=<path>), 2 tool error / time-out.
"""
import gzip
import hashlib
import json
import os
import re
import shutil
import subprocess
import sys
import tempfile
import time

VERIF = os.path.dirname(os.path.dirname(os.path.abspath(__file__)))
SPEC = os.path.join(VERIF, "spec")
HARNESS = os.path.join(VERIF, "harness")
WORK = os.path.join(VERIF, "work")
CACHE = os.path.join(VERIF, "cache")
EVID = os.path.join(VERIF, "evidence")
REPLAY = os.path.join(VERIF, "replay")
BIN = os.path.join(HARNESS, "target", "release", "oq3v")
TLA_JAR = "/opt/veriftools/tla/tla2tools.jar"


class ToolError(Exception):
    pass


def log(*a):
    print(*a, file=sys.stderr, flush=True)


# --------------------------------------------------------------------------- TLC

class TlcResult:
    def __init__(self):
        self.ok = False            # TLC finished without reporting an error
        self.violated = None       # name of violated invariant / property, if any
        self.generated = 0
        self.distinct = 0
        self.depth = 0
        self.tagged = {}           # tag -> list of decoded JSON values (PrintT(<<tag, json>>))
        self.coverage = {}         # action name -> count (when -coverage is on)
        self.raw_tail = ""
        self.wall = 0.0
        self.timed_out = False
        self.error_text = ""
        self.cached = False

    def to_json(self):
        return {k: getattr(self, k) for k in
                ("ok", "violated", "generated", "distinct", "depth", "tagged", "coverage",
                 "raw_tail", "wall", "timed_out", "error_text")}

    @staticmethod
    def from_json(d):
        r = TlcResult()
        for k, v in d.items():
            setattr(r, k, v)
        return r


_PRINT_RE = re.compile(r'^<<"([A-Z_]+)", "(.*)">>$')


def _parse_tlc_output(text, res):
    tagged = {}
    lines = text.split("\n")
    for ln in lines:
        m = _PRINT_RE.match(ln)
        if m:
            try:
                val = json.loads(json.loads('"' + m.group(2) + '"'))
            except Exception:
                try:
                    val = json.loads('"' + m.group(2) + '"')
                except Exception:
                    val = m.group(2)
            tagged.setdefault(m.group(1), []).append(val)
            continue
        m = re.match(r'^<<"([A-Z_]+)", (.*)>>$', ln)
        if m:
            tagged.setdefault(m.group(1), []).append(m.group(2))
            continue
        m = re.search(r"(\d[\d,]*) states generated, (\d[\d,]*) distinct states found", ln)
        if m:
            res.generated = int(m.group(1).replace(",", ""))
            res.distinct = int(m.group(2).replace(",", ""))
        m = re.search(r"depth of the complete state graph search is (\d+)", ln)
        if m:
            res.depth = int(m.group(1))
        m = re.search(r"Invariant (\S+) is violated", ln)
        if m:
            res.violated = m.group(1)
        m = re.search(r"Action property (\S+) is violated|Temporal properties were violated|property (\S+) is violated", ln)
        if m and not res.violated:
            res.violated = m.group(1) or m.group(2) or "temporal"
        m = re.match(r"^<(\w+) line \d+, col \d+ to line \d+, col \d+ of module (\w+)(?: \([\d ]+\))?>: (\d+):(\d+)", ln)
        if m:
            res.coverage[m.group(1)] = res.coverage.get(m.group(1), 0) + int(m.group(4))
    res.tagged = tagged
    res.raw_tail = "\n".join(l for l in lines[-60:] if not l.startswith('<<"'))[-4000:]
    if "Model checking completed. No error has been found." in text or \
       re.search(r"Finished in .* at", text) and "Error:" not in text and res.violated is None:
        res.ok = res.violated is None and "Error:" not in text
    errs = [l for l in lines if l.startswith("Error:")]
    res.error_text = "\n".join(errs[:5])


def lib_dir(lib):
    """lib: None, a directory name under spec/, or a list of them.  Several directories are merged into one directory of
    symlinks under work/ (the TLA-Library property takes one usable directory here).  Returns (path or None, hash text)."""
    if not lib:
        return None, ""
    libs = [lib] if isinstance(lib, str) else list(lib)
    dirs = [os.path.join(SPEC, d) if not os.path.isabs(d) else d for d in libs]
    h = "".join(spec_hash(d) for d in dirs)
    if len(dirs) == 1:
        return dirs[0], h
    os.makedirs(WORK, exist_ok=True)
    merged = tempfile.mkdtemp(prefix="tlalib_", dir=WORK)
    for d in dirs:
        for fn in os.listdir(d):
            if fn.endswith(".tla") and not os.path.exists(os.path.join(merged, fn)):
                os.symlink(os.path.join(d, fn), os.path.join(merged, fn))
    return merged, h


def spec_hash(spec_dir, extra=""):
    h = hashlib.sha256()
    for fn in sorted(os.listdir(spec_dir)):
        if fn.endswith((".tla", ".cfg")):
            h.update(fn.encode())
            h.update(open(os.path.join(spec_dir, fn), "rb").read())
    h.update(extra.encode())
    return h.hexdigest()[:20]


def run_tlc(spec_dir, module, cfg, workers=8, timeout=600, simulate=None, depth=None,
            coverage=False, env=None, dfs=False, xss=None, xmx="8g", cache_key=None,
            seed=None, keep_tags=None, deadlock=False, lib=None):
    """Run TLC on spec_dir/module.tla with spec_dir/cfg.  Returns TlcResult."""
    spec_dir = os.path.join(SPEC, spec_dir) if not os.path.isabs(spec_dir) else spec_dir
    libdir, libhash = lib_dir(lib)
    if cache_key is not None:
        key = spec_hash(spec_dir, f"{module}|{cfg}|{simulate}|{depth}|{cache_key}" + libhash)
        cpath = os.path.join(CACHE, f"{module}-{cfg}-{key}.json.gz")
        if os.path.exists(cpath):
            try:
                r = TlcResult.from_json(json.load(gzip.open(cpath, "rt")))
                r.cached = True
                return r
            except Exception:
                pass
    os.makedirs(WORK, exist_ok=True)
    meta = tempfile.mkdtemp(prefix="tlc_", dir=WORK)
    jopts = []
    if xss:
        jopts.append(f"-Xss{xss}")
    if dfs:
        jopts.append("-Dtlc2.tool.queue.IStateQueue=StateDeque")
    if libdir:
        jopts.append(f"-DTLA-Library={libdir}")
    cmd = ["java", f"-Xmx{xmx}", "-XX:+UseParallelGC"] + jopts + [
        "-cp", TLA_JAR + ":/opt/veriftools/tla/CommunityModules-deps.jar", "tlc2.TLC",
        "-workers", str(workers), "-metadir", meta, "-cleanup", "-noGenerateSpecTE",
        "-config", cfg]
    if not deadlock:
        pass
    if coverage:
        cmd += ["-coverage", "1"]
    if simulate:
        cmd += ["-simulate", f"num={simulate}"]
    if depth:
        cmd += ["-depth", str(depth)]
    if seed is not None:
        cmd += ["-seed", str(seed)]
    cmd.append(module + ".tla")
    e = dict(os.environ)
    if env:
        e.update(env)
    res = TlcResult()
    t0 = time.time()
    try:
        p = subprocess.run(cmd, cwd=spec_dir, env=e, stdout=subprocess.PIPE,
                           stderr=subprocess.STDOUT, timeout=timeout, text=True, errors="replace")
        out = p.stdout
    except subprocess.TimeoutExpired as ex:
        out = (ex.stdout or b"")
        if isinstance(out, bytes):
            out = out.decode(errors="replace")
        res.timed_out = True
    finally:
        shutil.rmtree(meta, ignore_errors=True)
    res.wall = time.time() - t0
    _parse_tlc_output(out, res)
    if res.timed_out:
        res.ok = False
    if keep_tags is not None:
        res.tagged = {k: v for k, v in res.tagged.items() if k in keep_tags}
    if cache_key is not None and res.ok:
        os.makedirs(CACHE, exist_ok=True)
        json.dump(res.to_json(), gzip.open(cpath, "wt"))
    return res


def run_tlc_stream(spec_dir, module, cfg, tag, workers=8, timeout=3000, xss="1g", xmx="12g", lib=None, cache_key=None,
                   simulate=None, depth=None, seed=None):
    """Like run_tlc, but the PrintT(<<tag, json>>) lines are streamed to an ndjson(.gz) file instead of being kept in memory.
    Returns (TlcResult without tagged, path of the gz file, number of lines)."""
    spec_dir = os.path.join(SPEC, spec_dir) if not os.path.isabs(spec_dir) else spec_dir
    libdir, libhash = lib_dir(lib)
    os.makedirs(CACHE, exist_ok=True); os.makedirs(WORK, exist_ok=True)
    key = spec_hash(spec_dir, f"{module}|{cfg}|{simulate}|{depth}|{seed}|{cache_key}|{tag}" + libhash)
    base = os.path.join(CACHE if cache_key is not None else WORK, f"{module}-{cfg}-{key}")
    gz = base + ".ndjson.gz"; meta = base + ".meta.json"
    if cache_key is not None and os.path.exists(gz) and os.path.exists(meta):
        d = json.load(open(meta))
        r = TlcResult.from_json(d["res"]); r.cached = True
        return r, gz, d["n"]
    metadir = tempfile.mkdtemp(prefix="tlc_", dir=WORK)
    jopts = [f"-Xss{xss}"] + ([f"-DTLA-Library={libdir}"] if libdir else [])
    cmd = ["java", f"-Xmx{xmx}", "-XX:+UseParallelGC"] + jopts + ["-cp", TLA_JAR + ":/opt/veriftools/tla/CommunityModules-deps.jar", "tlc2.TLC",
           "-workers", str(workers), "-metadir", metadir, "-cleanup", "-noGenerateSpecTE", "-config", cfg]
    if simulate:
        cmd += ["-simulate", f"num={simulate}"]
    if depth:
        cmd += ["-depth", str(depth)]
    if seed is not None:
        cmd += ["-seed", str(seed)]
    cmd.append(module + ".tla")
    res = TlcResult(); t0 = time.time(); n = 0; other = []
    pre = '<<"' + tag + '", "'
    tmp = gz + ".tmp"
    p = subprocess.Popen(cmd, cwd=spec_dir, stdout=subprocess.PIPE, stderr=subprocess.STDOUT, text=True, errors="replace")
    try:
        with gzip.open(tmp, "wt", compresslevel=1) as out:
            for ln in p.stdout:
                if ln.startswith(pre):
                    body = ln.rstrip("\n")[len(pre) - 1:-2]
                    out.write(json.loads(body) + "\n"); n += 1
                else:
                    if len(other) < 5000:
                        other.append(ln.rstrip("\n"))
                if time.time() - t0 > timeout:
                    p.kill(); res.timed_out = True
                    break
        p.wait(timeout=60)
    finally:
        shutil.rmtree(metadir, ignore_errors=True)
    res.wall = time.time() - t0
    _parse_tlc_output("\n".join(other), res)
    if res.timed_out:
        res.ok = False
    if res.ok:
        os.replace(tmp, gz)
        json.dump({"res": res.to_json(), "n": n}, open(meta, "w"))
    else:
        try:
            os.remove(tmp)
        except OSError:
            pass
    return res, gz, n


def tlc_classpath_probe():
    """Return the java command prefix that `tlc` on PATH uses (so CommunityModules resolve)."""
    return shutil.which("tlc")


# --------------------------------------------------------------------------- harness

def build_harness():
    """(Re)build the Rust harness against /repo's current working tree, offline, hooks on."""
    lock_src = "/repo/Cargo.lock"
    t0 = time.time()
    env = dict(os.environ, CARGO_NET_OFFLINE="true")
    p = subprocess.run(["cargo", "build", "--release", "--offline", "--quiet"], cwd=HARNESS,
                       env=env, stdout=subprocess.PIPE, stderr=subprocess.STDOUT, text=True)
    if p.returncode != 0:
        raise ToolError("harness build failed:\n" + p.stdout[-4000:])
    return time.time() - t0


CURRENT_CHECK = None      # the Check object of the running script (set by Check.__init__)


def run_harness(args, stdin_text=None, timeout=3600, env=None):
    os.makedirs(WORK, exist_ok=True)
    hang_file = os.path.join(WORK, f"hang_{os.getpid()}_{int(time.time() * 1000) % 100000000}.json")
    e = dict(os.environ, RUST_BACKTRACE="1", OQ3V_HANG_FILE=hang_file)
    if env:
        e.update(env)
    p = subprocess.run([BIN] + [str(a) for a in args], input=stdin_text, stdout=subprocess.PIPE,
                       stderr=subprocess.PIPE, text=True, timeout=timeout, env=e, errors="replace")
    if p.returncode == 3 and os.path.exists(hang_file):
        # the code under test did not return on some input (the harness' watchdog stopped the run): that is an observation
        # of the real crates, i.e. a violation of the property whose check is running, not a tool error
        info = json.load(open(hang_file))
        os.remove(hang_file)
        if CURRENT_CHECK is not None:
            CURRENT_CHECK.report({"kind": "hang", "what": f"the code under test did not return within {info.get('secs')} s (harness command {args[0]})",
                                  "text": info.get("input", ""), "site": str(args[0])})
            CURRENT_CHECK.finish()
        raise ToolError(f"harness watchdog: code under test hung on {info.get('input', '')[:200]!r}")
    return p


def harness_json(args, stdin_text=None, timeout=3600, env=None):
    """Run a harness sub-command whose stdout is one JSON document."""
    p = run_harness(args, stdin_text, timeout, env)
    if p.returncode not in (0,):
        raise ToolError(f"harness {args} exited {p.returncode}:\n{p.stderr[-3000:]}")
    try:
        return json.loads(p.stdout)
    except Exception as ex:
        raise ToolError(f"harness {args} produced invalid JSON ({ex}):\n{p.stdout[-2000:]}\n{p.stderr[-2000:]}")


# --------------------------------------------------------------------------- findings

class Findings:
    """known_findings.jsonl: one JSON object per line
       {"property": "Cxx", "id": "...", "match": {"kind": ..., ...}, "what": "..."}  or
       {"fixed": "property=Cxx <commit> <what failed>"} lines (suppress nothing)."""

    def __init__(self, prop):
        self.prop = prop
        self.items = []
        path = os.path.join(VERIF, "known_findings.jsonl")
        if os.path.exists(path):
            for ln in open(path):
                ln = ln.strip()
                if not ln or ln.startswith("#"):
                    continue
                d = json.loads(ln)
                if d.get("property") == prop and "match" in d:
                    self.items.append(d)
        self.hit = {}

    def match(self, viol):
        """viol: dict describing a violation with keys the matchers use.  Returns finding or None."""
        for f in self.items:
            m = f["match"]
            ok = True
            for k, v in m.items():
                if k == "kind":
                    if viol.get("kind") != v:
                        ok = False
                elif k.endswith("_prefix"):
                    kk = k[:-7]
                    if not str(viol.get(kk, "")).startswith(v):
                        ok = False
                elif k.endswith("_contains"):
                    kk = k[:-9]
                    if v not in str(viol.get(kk, "")):
                        ok = False
                elif k.endswith("_in"):
                    kk = k[:-3]
                    if viol.get(kk) not in v:
                        ok = False
                else:
                    if viol.get(k) != v:
                        ok = False
                if not ok:
                    break
            if ok:
                self.hit.setdefault(f["id"], f)
                return f
        return None


# --------------------------------------------------------------------------- check driver

class Check:
    def __init__(self, prop, argv=None):
        argv = sys.argv[1:] if argv is None else argv
        self.prop = prop
        self.tier = "quick"
        for a in argv:
            if a in ("quick", "thorough"):
                self.tier = a
        if os.environ.get("VERIF_TIER") in ("quick", "thorough") and not any(a in ("quick", "thorough") for a in argv):
            self.tier = os.environ["VERIF_TIER"]
        try:
            self.seed = int(os.environ.get("VERIF_SEED", "1"))
        except ValueError:
            self.seed = 1
        self.replay_arg = None
        if "--replay" in argv:
            self.replay_arg = argv[argv.index("--replay") + 1]
        self.t0 = time.time()
        global CURRENT_CHECK
        CURRENT_CHECK = self
        self.findings = Findings(prop)
        self.violations = []      # unmatched
        self.known = {}
        self.cov = {"samples": []}
        self.assumptions = []
        self.level = "exploration"
        self.notes = []
        self.drift = []
        os.makedirs(EVID, exist_ok=True)
        os.makedirs(os.path.join(REPLAY, prop), exist_ok=True)
        os.makedirs(WORK, exist_ok=True)
        self.work = tempfile.mkdtemp(prefix=f"{prop}_", dir=WORK)

    @property
    def quick(self):
        return self.tier == "quick"

    def add(self, key, n):
        self.cov[key] = self.cov.get(key, 0) + n

    def sample(self, s, limit=8):
        if len(self.cov["samples"]) < limit:
            self.cov["samples"].append(s)

    def report(self, viol):
        """viol: dict with at least 'kind' and 'what'; 'replay' = JSON-able object to write."""
        f = self.findings.match(viol)
        if f is not None:
            if f["id"] not in self.known:
                self.known[f["id"]] = (f, viol)
            return False
        # many inputs that fail at the same site in the same way: keep the first 25 (the verdict needs one)
        k = (viol.get("kind"), viol.get("site") or viol.get("cause") or viol.get("mechanism") or "")
        self._per_site = getattr(self, "_per_site", {})
        self._per_site[k] = self._per_site.get(k, 0) + 1
        if self._per_site[k] > 25 and k[1]:
            self.suppressed = getattr(self, "suppressed", 0) + 1
            return True
        self.violations.append(viol)
        return True

    def write_replay(self, viol):
        body = json.dumps(viol, ensure_ascii=False, indent=1, sort_keys=True)
        h = hashlib.sha256(body.encode()).hexdigest()[:12]
        path = os.path.join(REPLAY, self.prop, f"{h}.json")
        open(path, "w").write(body)
        return path

    def _replay_filter(self):
        """--replay <file>: the check is run again (same tier / seed) and only the violation recorded in the file counts:
        exit 1 with its VIOLATION line if it shows again, exit 0 otherwise (the evidence file is not rewritten)."""
        want = json.load(open(self.replay_arg))
        keys = [k for k in ("kind", "text", "tokens", "lexeme", "sig", "family", "cause", "site", "ctx", "pair", "dev", "calls", "record", "msg")
                if k in want and isinstance(want[k], (str, int, float, list))]
        hits = [v for v in self.violations + [x[1] for x in self.known.values()] if all(v.get(k) == want[k] for k in keys)]
        shutil.rmtree(self.work, ignore_errors=True)
        if hits:
            print(f"VIOLATION property={self.prop} replay={self.replay_arg}")
            log("    reproduced:", json.dumps({k: hits[0].get(k) for k in keys}, ensure_ascii=False)[:600])
            sys.exit(1)
        log(f"[{self.prop}] replay: the recorded violation does not show on the current tree (matched on {keys})")
        sys.exit(0)

    def finish(self):
        if self.replay_arg:
            self._replay_filter()
        wall = time.time() - self.t0
        for fid, (f, viol) in sorted(self.known.items()):
            print(f"KNOWN-FINDING: property={self.prop} {fid} {f.get('what', '')}")
        rc = 0
        # de-duplicate violations by (kind, what-site)
        shown = 0
        for v in self.violations:
            path = self.write_replay(v)
            if shown < 5:
                print(f"VIOLATION property={self.prop} replay={path}")
                log("   ", json.dumps({k: v[k] for k in v if k != "replay"}, ensure_ascii=False)[:600])
            shown += 1
            rc = 1
        cov = dict(self.cov)
        if self.drift:
            cov["model_drift"] = self.drift[:10]
        if self.notes:
            cov["notes"] = self.notes
        cov["known_findings_manifested"] = sorted(self.known)
        ev = {"property_id": self.prop, "tier": self.tier, "seed": self.seed, "level": self.level,
              "coverage": cov, "assumptions": self.assumptions, "wall_s": round(wall, 2),
              "violations": len(self.violations)}
        with open(os.path.join(EVID, f"{self.prop}.json"), "w") as fh:
            json.dump(ev, fh, indent=1, ensure_ascii=False)
        shutil.rmtree(self.work, ignore_errors=True)
        log(f"[{self.prop}] tier={self.tier} wall={wall:.1f}s violations={len(self.violations)} "
            f"known={len(self.known)} level={self.level}")
        sys.exit(rc)

    def tool_error(self, msg):
        log(f"[{self.prop}] TOOL ERROR: {msg}")
        shutil.rmtree(self.work, ignore_errors=True)
        sys.exit(2)


def main_guard(fn):
    try:
        fn()
    except ToolError as ex:
        log("TOOL ERROR:", ex)
        sys.exit(2)
    except subprocess.TimeoutExpired as ex:
        log("TIMEOUT:", ex)
        sys.exit(2)
    except SystemExit:
        raise
    except BaseException as ex:      # a bug in the machinery is a tool error (exit 2), never a verdict (exit 1)
        import traceback
        traceback.print_exc()
        log("TOOL ERROR (internal):", repr(ex)[:300])
        sys.exit(2)
